#!/bin/sh
# usage: tools/repo_commit.sh "<commit message>"   -- commits /repo's working tree only if the pinned suite still passes
set -e
cd /repo
out=$(/venv/bin/python -m pytest -q -p no:cacheprovider 2>&1 | tail -1)
echo "$out"
case "$out" in
  "1 failed, 1433 passed"*) git commit -qam "$1" && git log --oneline | head -1 ;;
  *) echo "SUITE CHANGED - not committing"; exit 1 ;;
esac
