#!/usr/bin/env python3
"""Seeded-defect bookkeeping.

  tools/seeds.py verify <PID> <mN> [--src /tmp/seedout]   confirm a sub-agent's change in a scratch worktree
                                                          and store it as seeded/<PID>-<mN>/
  tools/seeds.py try <seed-dir-name> [<CHECK-ID> ...]     apply seeded/<name>/patch.diff to a scratch worktree of
                                                          /repo's HEAD, run the quick checks against it
                                                          (PYTHONPATH + VERIF_OUT), remove it, record the result
  tools/seeds.py table                                    print which checks caught which seeds
"""
import json, os, shutil, subprocess, sys, time

VERIF = os.path.dirname(os.path.dirname(os.path.abspath(__file__)))
SEEDED = os.path.join(VERIF, "seeded")
PY = "/venv/bin/python"


def sh(cmd, **kw):
    return subprocess.run(cmd, shell=isinstance(cmd, str), capture_output=True, text=True, **kw)


def suite(wt):
    env = dict(os.environ, PYTHONPATH=f"{wt}/src")
    p = sh(f"cd {wt} && {PY} -m pytest -q -p no:cacheprovider -x --deselect 'tests/unit/py/test_inspection.py::test_origin[type_alias_type]' 2>&1 | tail -3", env=env)
    return p.stdout.strip().splitlines()[-1] if p.stdout.strip() else "no output"


def verify(pid, mn, src="/tmp/seedout", store_as=None):
    d = os.path.join(src, pid, mn)
    patch = os.path.join(d, "patch.diff")
    demo = os.path.join(d, "demo.py")
    assert os.path.exists(patch) and os.path.exists(demo), d
    wt = f"/tmp/wt/verify-{pid}-{mn}"
    sh(f"git -C /repo worktree remove --force {wt}")
    assert sh(f"git -C /repo worktree add --detach {wt}").returncode == 0
    try:
        env = dict(os.environ, PYTHONPATH=f"{wt}/src")
        base_demo = sh(f"cd {wt} && {PY} {demo}", env=env)
        ap = sh(f"git -C {wt} apply {patch}")
        if ap.returncode != 0:
            ap = sh(f"git -C {wt} apply --3way {patch}")
        if ap.returncode != 0 or "conflict" in (ap.stdout + ap.stderr).lower():
            print("patch does not apply:", ap.stderr); return False
        files = sh(f"git -C {wt} diff --stat").stdout
        s = suite(wt)
        mut_demo = sh(f"cd {wt} && {PY} {demo}", env=env)
        ok = ("1433 passed" in s and "failed" not in s and base_demo.returncode == 0
              and mut_demo.returncode != 0)
        print(f"{pid}/{mn}: suite='{s}' demo_base={base_demo.returncode} demo_mut={mut_demo.returncode} -> {'CONFIRMED' if ok else 'REJECTED'}")
        if not ok:
            print(base_demo.stdout[-500:], base_demo.stderr[-500:], mut_demo.stdout[-300:])
            return False
        out = os.path.join(SEEDED, f"{pid}-{store_as or mn}")
        os.makedirs(out, exist_ok=True)
        shutil.copy(patch, out); shutil.copy(demo, out)
        notes = os.path.join(d, "notes.md")
        needs = open(notes).read() if os.path.exists(notes) else ""
        meta = {"property": pid, "origin": "independent sub-agent given only the property text and a scratch worktree"
                          + (" (round 2, against the tree with the fix: commits)" if "seedout2" in src else " (round 3, against the tree with the fix: commits; asked for non-cache, shape-, side- or flavour-specific changes)" if "seedout3" in src else " (round 4, against the tree with the fix: commits; asked for helper modules, feature combinations, error paths, off-by-one with three or more)" if "seedout4" in src else ""),
                "needs_to_manifest": needs[:3000],
                "confirmed": {"suite_with_patch": s + " (the always-failing test_origin[type_alias_type] deselected)",
                              "demo_exit_unchanged": base_demo.returncode, "demo_exit_patched": mut_demo.returncode,
                              "files": files.strip().splitlines()},
                "ran": [f"git worktree add {wt}", f"{PY} demo.py (unchanged tree)", f"git apply patch.diff",
                        "pytest -q (whole suite)", f"{PY} demo.py (patched tree)"],
                "checks": {}}
        json.dump(meta, open(os.path.join(out, "meta.json"), "w"), indent=1)
        return True
    finally:
        sh(f"git -C /repo worktree remove --force {wt}")


def try_seed(name, checks, tier="quick"):
    """Run the checks against a scratch worktree of /repo's HEAD with the seeded patch applied.

    The worktree is selected with PYTHONPATH (it shadows the editable install of /repo), evidence and
    replay files go to a scratch directory (VERIF_OUT), so neither /repo nor /verif/evidence is touched
    and several seeds can be tried at the same time.
    """
    d = os.path.join(SEEDED, name)
    meta = json.load(open(os.path.join(d, "meta.json")))
    if not checks:
        checks = [meta["property"]]
    wt = f"/tmp/wt/try-{name}"
    out = f"/tmp/wt/try-{name}.out"
    sh(f"git -C /repo worktree remove --force {wt}")
    shutil.rmtree(out, ignore_errors=True)
    assert sh(f"git -C /repo worktree add --detach {wt}").returncode == 0
    try:
        ap = sh(f"git -C {wt} apply {d}/patch.diff")
        if ap.returncode != 0:   # the tree has moved on (fix: commits): 3-way merge against the base blobs
            ap = sh(f"git -C {wt} apply --3way {d}/patch.diff")
            meta["applied_with"] = "git apply --3way (fix: commits touched the same file)"
        if not (ap.returncode == 0 and "conflict" not in (ap.stdout + ap.stderr).lower()):
            print(f"{name}: patch does not apply to the current tree (needs a manual rebase): {ap.stderr.strip()[:200]}")
            # the recorded results stay (they are from the last tree the patch applied to) but are marked as such
            head = sh("git -C /repo rev-parse --short HEAD").stdout.strip()
            meta["stale"] = f"patch no longer applies to /repo at {head} (a later fix: commit rewrote the same lines); results are from the last tree it applied to"
            json.dump(meta, open(os.path.join(d, "meta.json"), "w"), indent=1)
            return
        meta.pop("stale", None)
        env = dict(os.environ, PYTHONPATH=f"{wt}/src", VERIF_OUT=out)
        for c in checks:
            t0 = time.time()
            p = sh(f"cd {VERIF} && timeout -k 5 {900 if tier == 'quick' else 7200} ./check {c} --tier {tier}", env=env)
            viol = [l for l in p.stdout.splitlines() if l.startswith("VIOLATION")]
            ev = os.path.join(out, "evidence", f"{c}.json")
            tree = json.load(open(ev))["coverage"].get("tree_under_test") if os.path.exists(ev) else None
            res = {"exit": p.returncode, "violations": len(viol), "wall_s": round(time.time() - t0, 1),
                   "first": (viol[0] if viol else ""), "tier": tier, "tree_under_test": tree,
                   "detail": next((l.strip() for l in p.stdout.splitlines() if l.startswith("  clause=")), "")[:400]}
            assert tree in (None, wt), f"check ran against {tree}, not the patched worktree"
            meta["checks"][c] = res
            print(f"{name} vs {c}: exit={p.returncode} violations={len(viol)} {res['detail'][:200]}")
            if p.returncode == 2:
                print(p.stderr[-1500:])
    finally:
        sh(f"git -C /repo worktree remove --force {wt}")
        shutil.rmtree(out, ignore_errors=True)
    json.dump(meta, open(os.path.join(d, "meta.json"), "w"), indent=1)


def table():
    for name in sorted(os.listdir(SEEDED)):
        mp = os.path.join(SEEDED, name, "meta.json")
        if not os.path.exists(mp):
            continue
        meta = json.load(open(mp))
        cs = ", ".join(f"{c}:{'CAUGHT' if r['exit'] == 1 else ('miss' if r['exit'] == 0 else 'ERR')}"
                       for c, r in sorted(meta.get("checks", {}).items()))
        note = " [obsolete: no longer violates]" if meta.get("obsolete") else " [differential]" if meta.get("differential") else ""
        if meta.get("stale"):
            note += " [stale: patch needs a rebase onto the current tree]"
        print(f"{name:12s} {cs}{note}")


if __name__ == "__main__":
    cmd = sys.argv[1]
    if cmd == "verify":
        opts = dict(zip(sys.argv[4::2], sys.argv[5::2]))
        verify(sys.argv[2], sys.argv[3], src=opts.get("--src", "/tmp/seedout"), store_as=opts.get("--as"))
    elif cmd == "try":
        try_seed(sys.argv[2], sys.argv[3:])
    elif cmd == "table":
        table()
