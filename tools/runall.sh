#!/bin/bash
# usage: tools/runall.sh [tier] [ids...]   -- run checks 5 at a time against /repo; evidence to a scratch dir unless KEEP=1
cd "$(dirname "$0")/.."
tier=${1:-quick}; shift
ids=${@:-C01 C02 C03 C04 C05 C06 C07 C08 C09 C10 C11 C12 C13 C14 C15 C16 C17 C18 C19 C20}
out=$(mktemp -d /tmp/runall.XXXX)
[ -n "$KEEP" ] || export VERIF_OUT=$out
printf '%s\n' $ids | xargs -P ${PAR:-5} -I{} sh -c "s=\$(date +%s); ./check {} --tier $tier > $out/{}.log 2>&1; echo \"{} exit=\$? \$(( \$(date +%s) - s ))s \$(grep -c '^VIOLATION' $out/{}.log) viol\" >> $out/summary"
sort $out/summary
grep -h -A1 '^VIOLATION\|MACHINERY' $out/*.log | cut -c1-400 | head -40
[ -n "$KEEP" ] && rm -rf $out || echo "logs: $out"
