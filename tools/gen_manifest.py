#!/usr/bin/env python3
"""Regenerate MANIFEST.json from the table below (one entry per claimed property)."""
import json, os
HERE = os.path.dirname(os.path.dirname(os.path.abspath(__file__)))
props = [json.loads(l) for l in open(os.path.join(HERE, "properties.jsonl"))]

CLAIMED = {
 "C16": dict(
   engine="Context",
   technique="TLA+ spec Context.tla: complete TLC state space with refinement Impl=>Ref; every model transition replayed on the real TypeContext; random real histories trace-validated by TLC (Context_Trace.tla)",
   level="model_checking",
   text="TLC explores the complete (stored, memo) state space of the TypeContext model (all histories of any length over the closed key family) and checks that the write-back implementation refines the write-once reference lookup; every transition of the full-family model is executed on the real class and random real operation sequences are validated event by event against the reference by TLC.",
   ref="DESIGN.md section 4 C16",
   note="Trusted: TLC, CommunityModules Json; the Python projection of dict keys/values to [b,f] records; bounded to the closed key family (3 class bases x 14 forms and a Literal base x 7 wrapper forms in traces -- the flat forms plus NewType over alias / NewType / string alias and Final[NewType]; complete state space for 1 base x 10 and x 14 forms and 2-3 bases x 6 forms; one base is a class nested in a class)."),
 "C08": dict(
   engine="Union",
   technique="TLA+ spec Union.tla (reference relation UnionRef + try/suppress loop), exhaustive TLC over member tuples/outcomes; real union routines vs independently built member routines, validated by TLC trace spec Union_Trace.tla",
   level="model_checking",
   text="TLC checks that the implementation-shaped try/suppress loop refines UnionRef for every member tuple of length 2-4, every None placement and every assignment of member outcomes (and finds the counterexamples for the pre-fix rotation/suppress rules). Real union routines (and the one-shot unmarshal()/marshal() entry points, held to the same reference) over ordered tuples of a 16-type pool (incl. a class and a subclass re-typing an inherited member, and bytes) are then run on an input pool (incl. memoryviews made anew per call, so that only the members of one union call share an object) in two orders and every call, with the outcomes of independently built member routines, is validated against UnionRef by TLC.",
   ref="DESIGN.md section 4 C08",
   note="Inputs include texts and collections of several hundred elements and bytes that are no UTF-8. Trusted: TLC; member outcomes taken from member routines built in the same process; caches cleared per union annotation (cross-annotation cache effects belong to C12). Quick samples 3/4-tuples; thorough runs all 3-tuples."),
 "C18": dict(
   engine="Iter",
   technique="TLA+ spec Iter.tla (ItemsRef/ValuesRef vs peek/strategy implementation layer), exhaustive TLC over [kind, element shapes]; every TLC-emitted input materialised and run on serdes.iteritems/itervalues, validated by TLC trace spec Iter_Trace.tla",
   level="model_checking",
   text="TLC enumerates every input description (25 class kinds incl. classes inheriting their first fields, slots-only hierarchies and partially evaluable hints x sequences of 8 element shapes incl. the empty tuple, up to the bound; the empty input for every kind), checks the implementation-shaped model against the reference outside the one listed deviation, and emits each case; the harness materialises each one as a real object, runs the real functions twice (strategy memo cold and warm, both class orders) and TLC validates every observation against ItemsRef/ValuesRef.",
   ref="DESIGN.md section 4 C18",
   note="Trusted: TLC; the tagging projection of yielded items; bounded to length 3 (quick) / 4 (thorough); 2-character-string elements unasserted."),
 "C10": dict(
   engine="Binding",
   technique="TLA+ spec Binding.tla (Python call binding BindRef vs transcribed _get_binding + 32-row matrix + 17 binders), exhaustive TLC over signatures x call shapes; every emitted (signature, call) executed through bind()/wrap() on generated callables, validated by TLC trace spec Binding_Trace.tla",
   level="model_checking",
   text="TLC checks for every legal signature of up to 4 (thorough: 5) parameters and every call shape that the transcribed binder selected by the matrix converts each argument with the unmarshaller of the parameter Python binds it to (and shows the pinned table violating this). Each emitted (signature, call) is then materialised as a real function / method / callable instance / class / factory closure (after a decoy product) / method bound through an instance after the same function was bound through the class / class with a pass-through __new__ (wrap only) whose parameters are annotated with distinct Enum classes, called through bind() and wrap(), and TLC validates every observation (landing parameter, converting class, TypeError on rejected calls, wrap metadata) against BindRef; BindRef's acceptance is audited against real Python calls.",
   ref="DESIGN.md section 4 C10",
   note="Trusted: TLC; the Enum-per-parameter trick identifying the converter; quick replays <=3-parameter signatures (unannotated variants <=2), quick adds >= 2 surplus positionals behind *args, thorough adds all 4-parameter signatures."),
 "C20": dict(
   engine="Future",
   technique="TLA+ spec Future.tla (Sem + five properties vs transcribed NodeTransformer), exhaustive TLC over expression ASTs; every emitted AST unparsed, run through the real future.transform twice, parsed back and validated by TLC trace spec Future_Trace.tla (plus Python eval structure)",
   level="model_checking",
   text="TLC enumerates every expression AST of the annotation grammar to the depth bound and checks that the transcribed transformer preserves Sem, leaves no PEP 604 union, is a fixpoint, is the identity when nothing is to do and uses the documented typing forms. Each emitted AST is unparsed, transformed by the real code, parsed back, and TLC evaluates the same five properties on (input AST, output AST, second output AST); both strings are also evaluated in Python and their origin/args structure compared.",
   ref="DESIGN.md section 4 C20",
   note="Trusted: TLC; Python's ast.parse/unparse (round trip audited on the emitted universe); Sem as the definition of 'same structure'. Depth 2 over 6 leaves / depth 1 over 15 leaves (incl. a constant with a run of blanks) exhaustively (thorough: depth 2 full in the model), random |-chains beyond."),
 "C19": dict(
   engine="Slotted",
   technique="TLA+ spec Slotted.tla (decoration histories: _stack guard, slot computation, CPython layout rule vs NeverRaises/StackEmpty/SlotFormula), exhaustive TLC; SlottedState.tla (which __setstate__ a slotted class ends up with per frozen-ness and declared state hooks) + SlottedState_Trace.tla; TLC-emitted histories materialised with real decorator syntax, slotted class vs plain twin under an operation battery, validated by TLC trace spec Slotted_Trace.tla",
   level="model_checking",
   text="TLC explores every decoration history up to the bound (names repeated, bases in slotted or plain form, all flag pairs) and checks that decoration never raises, the module-global guard is empty between decorations and the slot formula holds (and that the pinned behaviour violates this). Emitted histories are executed against the real decorator at module and function-local scope under 11 dataclass flag sets (incl. a lone __setstate__ / __getstate__); each event (outcome, __slots__, dict/weakref support, len(_stack), battery differences against the plain twin) is validated by TLC with the guard as a hidden variable; the state hook in use after decoration is judged by SlottedState (a declared hook is kept, a frozen class without hooks gets the fix).",
   ref="DESIGN.md section 4 C19",
   note="Trusted: TLC; the Python battery (construct/eq/order/hash/repr/copy/deepcopy/pickle 2-5/setattr/asdict/replace) whose equality TLC only asserts; bounded to histories of 3 (thorough 4) with <=2 own fields."),
 "C03": dict(
   engine="Wire",
   technique="TLA+ specs Terms.tla (type universe, class table) + Wire.tla (structural conformance Conf with named clauses); TLC enumerates the universe, the harness feeds junk and corrupted wire forms to the real unmarshal, TLC trace spec Wire_Trace.tla judges every returned value with Conf; every outermost unmarshaller-routine call of the repository's own test suite is recorded, its type projected onto the term language with its own class table, and judged by the same Conf",
   level="model_checking",
   text="TLC enumerates the bounded type universe (all leaves, every collection/mapping spelling, fixed tuples, unions, 47 synthesised classes of every flavour (incl. falsy, callable, signature-only, init=False members, members inherited along three-level hierarchies and across modules, keys that are no identifiers) incl. recursive and same-named ones, inheritance, mixed-totality and typing_extensions TypedDicts, wrapper chains, one wrapper object reached on two paths, aliases of None) and emits each type; the universe is run in three process orders (in order; reversed and class-free-first in forked processes that have not called the library), and for each type the real unmarshal is called on a junk pool (incl. sized iterables whose __len__ lies), on every single-step corruption of real wire forms and on the same values with their class positions given as instances holding raw members, and every returned value is checked by the TLA+ structural type checker Conf (runtime class at every position, arity, required keys, Literal/Enum membership), evaluated by TLC on the recorded events.",
   ref="DESIGN.md section 4 C03",
   note="Also run: three process orders, a pass in a python -O child interpreter (fixed-tuple and structured types), and annotations spelled anew for every call. Trusted: TLC; the projection of values to terms (harness/terms.py); Conf as the meaning of 'conforms'. Universe bounded to depth 2 with representative members (thorough adds 1,500 deeper terms drawn by tlc -simulate from spec/TermsSim.tla); corruptions computed by the harness."),
 "C13": dict(
   engine="Wire",
   technique="TLA+ specs Terms.tla + Wire.tla (Exact: value made of exactly the annotated classes); TLC-enumerated universe, pool values and junk fed to the real unmarshal, TLC trace spec Wire_Trace.tla checks r = v (pass-through) and u(u(x)) = u(x) (idempotence)",
   level="model_checking",
   text="For every union-free/Optional-only type of the TLC-enumerated universe, adversarial valid values (text-pool strings, 2-element first members, str-mixin enum members, named tuples with pair first fields) are passed to the real unmarshal; TLC first confirms Exact(T, v) in the spec and then requires the projected result to equal the projected input term (classes, offsets, fold included); idempotence is checked on every junk input whose first call succeeds.",
   ref="DESIGN.md section 4 C13",
   note="Trusted: TLC; term projection; values drawn from the per-leaf pools of harness/typeterms.py (boundary-biased, not exhaustive)."),
 "C01": dict(
   engine="Wire",
   technique="TLA+ specs Terms.tla (+TermsSim.tla for simulated deeper terms) + Wire.tla (Exact, set-insensitive wire equality WEq, reference marshalling relation IsWireOf); TLC-enumerated universe x pool values through the real marshal/unmarshal/marshal, TLC trace spec Wire_Trace.tla applies the strict law r = v or, for ambiguous unions, the weak fixpoint",
   level="model_checking",
   text="For every type of the TLC-enumerated universe and boundary-biased valid values, the real marshal -> unmarshal -> marshal chain is recorded; TLC confirms Exact(T, v), then requires the projected result term to equal the projected input (runtime class at every position, UTC offset, microseconds) unless a union inside T is ambiguous, and requires the second wire form to equal the first (modulo element order under set types) always. Scalars are visited twice in opposite orders with warm value memos. The marshalled form is also compared with the reference relation IsWireOf (reported as drift: no listed property fixes the wire format).",
   ref="DESIGN.md section 4 C01",
   note="Trusted: TLC; term projection; union ambiguity is decided with the real member routines over the member pools (it only selects which law applies, and is broader than the statement: marshal-side take-over counts too); every take-over is logged as a witness and bounded by the trace spec (a collection/mapping/fixed-tuple member never takes a scalar), so a member that starts accepting more cannot excuse itself. Values come from finite pools."),
 "C06": dict(
   engine="Wire",
   technique="TLA+ specs Terms.tla + Wire.tla (IsWire with exact builtin classes); TLC-enumerated universe x pool values and their subclass-instance variants through the real marshallers, TLC trace spec Wire_Trace.tla checks IsWire plus logged json/determinism/aliasing/intactness facts",
   level="model_checking",
   text="For every type of the TLC-enumerated universe, pool values and variants rebuilt from subclass instances (int/str/list subclasses, OrderedDict, pendulum temporals) are marshalled three times (twice in a row and once after all other values of the type); TLC evaluates IsWire on the projected output (exact NoneType/bool/int/float/str/list/dict at every position, primitive keys) and asserts the harness-measured facts: accepted by json.dumps, identical on every call, no mutable container shared with the input, input unchanged; Literal non-members must raise ValueError. Every marshal() call made by the repository's own test suite (recorded passively by a pytest plugin) is judged by the same clauses.",
   ref="DESIGN.md section 4 C06",
   note="Every value also goes through the one-shot marshal() with a freshly spelled annotation (must agree with the routine) and with its dicts rebuilt as collections.defaultdict (input must stay unchanged); Literal non-members are also tried in a python -O child. Trusted: TLC; term projection with exact class names; aliasing (id walks) and json.dumps verdict are measured in Python and only asserted by the trace spec."),
 "C09": dict(
   engine="Graph",
   technique="TLA+ spec Graph.tla (BFS, visited set, cut rule, predecessor relation vs Acyclic/MembersFirst/CyclicImpliesRevisit/DeferredDenotesExactly), exhaustive TLC over class-graph topologies; TLC-emitted topologies and the value universe materialised, real static_order() sequences validated by TLC trace spec Graph_Trace.tla over opaque type ids with stdlib-derived member facts",
   level="model_checking",
   text="TLC explores the graph-construction algorithm over every topology of 2 classes x <=2 fields x edge kinds x every root (thorough: all five edge kinds, and 3 classes) and checks termination, acyclicity of the dependency relation (so every linear extension exists), members-before-containers, and that deferred nodes are revisits denoting exactly their type; it also demonstrates that the pinned cut rule and an intermediate revision violate these. Every emitted (topology, root) is materialised as real classes (four flavours, one or two modules), static_order() is called, and TLC evaluates ten clauses on each observed node sequence using member facts computed with typing.get_args/get_type_hints; equivalent root spellings (memoised, NewType, alias, ForwardRef) must give the same sequence. Further sources: every type of the value universe, classes first walked before a field type was defined, and every root the repository's own test suite passes to static_order (recorded passively).",
   ref="DESIGN.md section 4 C09",
   note="Trusted: TLC; the id projection (Python == on annotations); typing.get_type_hints/get_args as the definition of direct members. Classes nested in classes are not generated in the graph universe (C16 has one)."),
 "C05": dict(
   engine="Member",
   technique="TLA+ specs Terms.tla (universe with adversarial class table) + Member_Trace.tla (memberwise relation and exception parity evaluated by TLC): real composite routines vs composites rebuilt from independently obtained member routines, over every documented source shape; plus spec Factory.tla -- the routine factory (graph walk, context writes, member resolution, proxies) model-checked over every 2-class topology x root x build order, four wrong variants required to fail -- bound to the code by Factory_Trace.tla judging the routine tables of the real unmarshaller()/marshaller()",
   level="model_checking",
   text="For every composite type of the TLC-enumerated universe (class table with same-named classes in two modules, shared field names with different types, recursive/mutually recursive classes, aliases as members) the real marshal/unmarshal of the whole value is compared by TLC with the composite rebuilt from the outcomes of separately obtained member routines, in both directions, for every documented source shape (mapping, iterable of pairs, JSON text/bytes, literal text, foreign object, tuple, and one-shot sources: generator, iter, map, zip, items view) and in both class visiting orders; when a member rejects, the composite must raise too. TLC also checks the Factory model (BuildNeverFails, RoutingCorrect, RootIsReal, ProxiesDenoteTypes, termination) and emits its (topology, root) cases; for each the real factories are built (never called) and Factory_Trace.tla judges kind and type of every member slot with the model's own operators.",
   ref="DESIGN.md section 4 C05",
   note="Trusted: TLC; the harness's decomposition of inputs and rebuild with Python constructors; term projection. Routine tables are read from the routine objects' attributes; a table that cannot be read back is drift, not a violation."),
 "C07": dict(
   engine="Graph",
   technique="TLA+ spec Graph.tla (termination and cut rule over all cycle topologies, liveness under fairness) + Member_Trace.tla (per-level events); TLC-emitted cycle topologies materialised, routines built under a watchdog, values unrolled to depth d, each recursion level validated by TLC",
   level="model_checking",
   text="TLC proves on the graph model that construction terminates and every cycle is cut for every topology of up to 2 classes x 2 fields (and 3 classes x 1 field) with every class or container as root. Each emitted cyclic (topology, root) is materialised (four class flavours, one or two modules); marshaller, unmarshaller and codec are built under a watchdog, and for each depth the raw wire value is unmarshalled, walked level by level (one event per value with a flag per level: right class, every scalar converted; at depths 1-3 also given as a tree of instances whose members still hold wire values), marshalled back and sent through the codec; every fourth case first asks for the routines of each class right after its class statement (before the classes it refers to exist) and is asserted when those early builds failed; TLC validates every event.",
   ref="DESIGN.md section 4 C07",
   note="Trusted: TLC; the harness's level walker and value unroller; depth counts class levels (0-12 quick; thorough adds 50, 100, 150 on a sample); below the second level values are paths rather than full trees. Known finding KF-C07-01 at depth 150 only."),
 "C11": dict(
   engine="Member",
   technique="TLA+ specs Terms/Wire (Strip) + Member_Trace.tla ('pair' relation evaluated by TLC); wrapper chains x positions x reference origins materialised in generated modules, W(T) vs T compared on marshal/unmarshal/encode/decode; Refs.tla (what a string reference denotes: Python's reading vs the transcribed module resolution, checked by TLC, every case replayed into refs.forwardref/evaluate and judged by Refs_Trace.tla)",
   level="model_checking",
   text="Wrapper chains of length <=3 over NewType / TypeAliasType (value and string) with Final/ClassVar where Python permits, over 10 base types, are placed at root, collection argument, mapping value, tuple member, union member, class field, class field after a plain field of the same type, in a holder declared in another module, after the plain type in a tuple, and on the back-edge of a recursive class, and referred to as objects, by string from the defining module (also from three nested calls), by ForwardRef(module=), by module-qualified string, by a string naming the module twice and by a ForwardRef used as a list argument; for every input the outcome with W(T) must equal the outcome with T (value terms equal, or both raise), which TLC checks event by event. String reference resolution is modelled on its own (Refs.tla): for 42 structured texts (dotted paths, list[path], typing.Optional[path], path | path; module-qualified, class-qualified, through an imported module, unbound) x explicit module x 4 call stacks TLC checks that wherever Python's reading of the text in the namespace it was written in succeeds the library denotes the same object (the first-dot rule of the pinned snapshot fails), and each of the 504 cases is issued to the real code from generated modules and judged by the trace spec.",
   ref="DESIGN.md section 4 C11",
   note="Trusted: TLC; term projection; twin classes compared up to their name. typelib's memos are cleared before each string-referenced call (the cross-module poisoning of the reference memo is C12's subject). Strip idempotence is checked at model level on the Terms universe."),
 "C15": dict(
   engine="Member",
   technique="TLA+ spec Terms.tla (extended annotation grammar enumerated by TLC) + Member_Trace.tla ('build' events) + Factory.tla / Factory_Trace.tla (routine factory model and real routine tables); every emitted annotation built (unmarshaller, marshaller, codec) under a watchdog, sentinel pass-through probes, rebuild memoised and after cache clearing",
   level="model_checking",
   text="TLC enumerates the extended annotation grammar (31 extension leaves -- Any, object, bare builtin/typing generics, free/bound/constrained TypeVars, Callable forms, type[X], bare and parameterised user generics, classes without hints incl. *args/**kwargs and keyword-only constructors -- under 11 constructors incl. two variadic tuples and class fields; depth 2 over all leaves in thorough) and the ordinary universe; for each annotation the three factories must return without error or non-termination, a sentinel object placed at every reachable pass-through position must come back identical through unmarshal and marshal, and rebuilding (memoised, and after clearing every cache) must give the same behaviour; TLC validates each build event. The routine factory model is checked and the real unmarshaller / marshaller tables of its emitted (topology, root) cases are judged by it (a resolvable member never gets a no-op routine).",
   ref="DESIGN.md section 4 C15",
   note="Trusted: TLC; the probe construction in the harness. Termination of graph construction itself is proved on the Graph model (C09/C07)."),
 "C14": dict(
   engine="Carriers",
   technique="TLA+ spec Carriers.tla (load() with its memo as state over texts x carriers, caller-side mutation of returned containers, LoadRef) checked exhaustively by TLC; real unmarshal/load/strload/decode over texts x 8 carriers x the type universe validated by TLC trace spec Carriers_Trace.tla with stdlib json/ast facts",
   level="model_checking",
   text="TLC explores every load() history over a text pool in the eight carriers (str, bytes, bytearray, views of bytes / a bytearray / a window of a larger buffer / a strided view) with the LRU memo as a state variable and checks carrier-freedom and agreement with LoadRef the survival of the caller's object and same-object reuse (and shows that memoising on the carrier object, handing out the memo's own containers, reading the exporting object instead of the view, or releasing the view violates them). On the real code, every type of the TLC universe is fed the same text in all eight carriers and TLC requires equal outcomes or rejection by all, every carrier object intact afterwards and the same outcome when it is handed over again; load/strload/decode are run over 72 adversarial texts (incl. documents after a line break) with facts from the standard json and ast modules, each load/strload again after the returned container was deep-mutated; JSON text, literal text and the decoded wire value must unmarshal alike for collection, mapping and structured types.",
   ref="DESIGN.md section 4 C14",
   note="Trusted: TLC; stdlib json (strict) and ast.literal_eval as fact sources; texts where strict and lenient JSON decoders disagree are excluded."),
 "C02": dict(
   engine="Codec",
   technique="TLA+ spec Codec.tla (codec() memo as state, three entry points, identity coder) checked exhaustively by TLC over histories; real codec/encode/decode under three encoder configurations in sequence, validated by TLC trace spec Codec_Trace.tla with the stdlib json parser as independent reader",
   level="model_checking",
   text="TLC explores every history of up to 4 uses over JSON-carried and bytes-like types and three encoder configurations with the codec() cache as state and checks agreement of the entry points, absence of cross-talk between configurations and verbatim carriage of bytes-like types (and shows a key without the coders, or top-level functions that always run the encoder, violating it). On the real code every str-keyed non-ambiguous type of the TLC universe (plus bytes/bytearray; values also with str-subclass keys in their declared mappings, which are == the plain value) is encoded and decoded through Codec methods, the top-level functions and the explicit composition under default -> stdlib json -> tagging codec -> default without clearing caches; TLC requires identical results, bytes equal to encoder(marshal(v)), the standard json module parsing them to exactly marshal(v), and decode(encode(v)) = v.",
   ref="DESIGN.md section 4 C02",
   note="Trusted: TLC; stdlib json as independent parser; term projection. Ambiguous-union types are outside (C01 weak law)."),
 "C12": dict(
   engine="Caches",
   technique="TLA+ spec Caches.tla (memo layers keyed by equality class vs observable detail, shared mutable results, clear) explored exhaustively by TLC; every abstract history instantiated in 35 families of colliding arguments, run warm in a fresh fork and compared call by call with the same call in a cold fork, validated by TLC trace spec Caches_Trace.tla",
   level="model_checking",
   text="TLC enumerates every operation history up to the bound over calls with arguments [equality class, detail], deep mutation of an earlier call's result and input, and cache clearing, and checks history-freedom of the reference memo (and that a detail-blind key or a shared result object violates it). Each emitted history is instantiated in 32 concrete families (union member orders at root and nested, equal instants with different offsets, text carriers, bare containers, 1/1.0/True, same-named classes, string references from two modules, recursive types, codec configurations, dateparse targets, routine kinds of one class in every build order, different inputs / value classes for one routine, private init fields, text decoding to nested containers, == durations of different classes, temporal -> text targets, == mapping keys, annotations of one runtime origin, the same input object again after a failed call, a class and its subclass in either order, an instance of the frozen target class passed again), executed in a fresh fork, and every call's outcome is compared by TLC with the outcome of the same call alone in another fresh fork of a zygote that never called the library; inputs must stay unmutated, earlier results unaffected (also by a mutation of the input that produced them), and results of different calls disjoint; every cold call is repeated in freshly started interpreters with other string-hash seeds and must give the same outcome.",
   ref="DESIGN.md section 4 C12",
   note="The cold calls are repeated in freshly started interpreters with other PYTHONHASHSEED and TZ values. Trusted: TLC; os.fork of a zygote as 'cold process'; term projection. Histories of length 4 (quick, 170 sampled per family) / 5 (thorough, all); 4 / 12 zygotes in parallel."),
 "C04": dict(
   engine="Scalars",
   technique="TLA+ spec Scalars.tla (routing law table, ISO-8601 duration token algebra model-checked by TLC over a boundary grid); real scalar parse/emit events over boundary + seeded Hypothesis values in 8 carriers under two time zones with warmed memos, validated by TLC trace spec Scalars_Trace.tla against standard-library facts",
   level="exploration",
   text="TLC checks the duration algebra (the writer's token form means exactly the timedelta triple, negation is involutive, well-formedness condition) on a boundary grid and the trace spec applies Law(K, input kind) to every observed call. For each scalar kind, boundary values and seeded random values are printed with Python's own printer and parsed back through the real unmarshal in eight carriers (incl. views onto a window of a larger buffer); marshalling must emit that very text and the standard library's own parser must read it back; durations are tokenised by an independent regex and judged by Meaning/WellFormed in TLA+; numbers are read as UTC epoch seconds against datetime.fromtimestamp and temporals converted to int/float/str/bytes; half the values run after the memos were warmed with an equal-but-different twin; everything runs under TZ=UTC and TZ=XXX-5:30. Infinite scalar domains are sampled, hence exploration.",
   ref="DESIGN.md section 4 C04",
   note="Trusted: TLC; Python's str()/isoformat()/fromisoformat()/Decimal/Fraction/UUID parsers as oracle; the regex duration tokenizer. time -> number (depends on today's date) is not asserted."),
 "C17": dict(
   engine="Dispatch",
   technique="TLA+ spec Dispatch.tla (each predicate as a definition over primitive runtime facts; the two ordered dispatch tables as first-match rows) evaluated by TLC on recorded predicate calls and factory choices (Dispatch_Trace.tla); facts extracted with typing/issubclass/dataclasses only",
   level="other",
   text="A catalogue differential whose oracle is composed in TLA+: 37 predicates (incl. the builtin / stdlib table predicates with their union rule) are definitions over primitive facts (issubclass of the resolved class against named bases, typing.get_origin/get_args, special-form flags) extracted at check time without typelib for 195 objects (incl. generic TypedDict / dataclass / NamedTuple, classes whose instances can be called, string aliases behind wrappers of other modules); TLC evaluates Def(p, facts) for every recorded call and checks agreement of the cold answer (every memo cleared before each question), no raise inside the domain, stability across calls (warm passes in both object orders), equal answers across spellings of one type inside the domain, origin()/args()/unwrap() against typing, and instantiable origins of collection annotations; the routine classes the real factories choose are compared with the first matching rows of the transcribed tables (drift).",
   ref="DESIGN.md section 4 C17",
   note="TLC contributes definitions and evaluation, not state exploration. Trusted: the fact extractor (stdlib), the resolution rule (NewType/alias/ClassVar, typing origin, documented abstract->builtin map)."),
}
NOT_BUILT = "check not built yet (build in progress; see DESIGN.md section 7 build order)"

ENGINES = {
 "Dispatch": dict(path="spec/Dispatch.tla", kind="TLA+ definitions + TLC trace evaluation + harness/drivers/c17.py"),
 "Scalars": dict(path="spec/Scalars.tla", kind="TLA+ spec + TLC (duration algebra, trace validation) + hypothesis-driven harness/drivers/c04.py"),
 "Caches": dict(path="spec/Caches.tla", kind="TLA+ spec + TLC (exhaustive histories, emission, trace validation) + harness/zygote.py + harness/drivers/c12.py"),
 "Codec": dict(path="spec/Codec.tla", kind="TLA+ spec + TLC (exhaustive histories, trace validation) + harness/drivers/c02.py"),
 "Carriers": dict(path="spec/Carriers.tla", kind="TLA+ spec + TLC (exhaustive histories, trace validation) + harness/drivers/c14.py"),
 "Member": dict(path="spec/Member_Trace.tla", kind="TLA+ trace spec over Terms/Wire + spec/Factory.tla, Factory_Trace.tla (routine factory model, TLC exhaustive + trace validation) + harness/routing.py + harness/drivers c05 c07 c11 c15"),
 "Graph": dict(path="spec/Graph.tla", kind="TLA+ spec + TLC (exhaustive incl. liveness, topology emission, trace validation) + harness/drivers/c09.py"),
 "Wire": dict(path="spec/Wire.tla", kind="TLA+ specs Terms.tla/Wire.tla/Wire_Trace.tla + TLC (universe enumeration, trace validation) + harness/valuestream.py, harness/typeterms.py, drivers c01 c03 c06 c13"),
 "Slotted": dict(path="spec/Slotted.tla", kind="TLA+ spec + TLC (exhaustive, history emission, trace validation) + harness/drivers/c19.py"),
 "Future": dict(path="spec/Future.tla", kind="TLA+ spec + TLC (exhaustive, case emission, trace validation) + harness/drivers/c20.py"),
 "Binding": dict(path="spec/Binding.tla", kind="TLA+ spec + TLC (exhaustive, table synthesis Binding_Synth.tla, case emission, trace validation) + harness/drivers/c10.py"),
 "Union": dict(path="spec/Union.tla", kind="TLA+ spec + TLC (exhaustive, trace validation) + harness/drivers/c08.py"),
 "Iter": dict(path="spec/Iter.tla", kind="TLA+ spec + TLC (exhaustive, case emission, trace validation) + harness/drivers/c18.py"),
 "Context": dict(path="spec/Context.tla", kind="TLA+ spec + TLC (exhaustive, emit, trace validation) + Python replay harness harness/drivers/c16.py"),
}

m = {
 "version": 1,
 "setup_cmd": "./setup.sh",
 "hooks": {"guard": "TYPELIB_VERIF",
           "enable": "no source hooks: the harness in /verif/harness drives and records the public API from outside; TYPELIB_VERIF is reserved and unused",
           "baseline_off_cmd": "cd /repo && /venv/bin/python -m pytest -ra -q -p no:cacheprovider --timeout=900 --continue-on-collection-errors",
           "source_commits": [], "add_only": True},
 "engines": [], "checks": [], "not_applicable": [],
 "notes": "All checks: ./check <ID> --tier quick|thorough (cwd /verif). Exit 0 held / 1 VIOLATION / 2 machinery failure. Known findings: known_findings.json.",
}
for name, e in ENGINES.items():
    m["engines"].append({"name": name, "path": e["path"], "kind_free_text": e["kind"],
                         "serves_properties": sorted(p for p, c in CLAIMED.items() if c["engine"] == name)})
for p in props:
    pid = p["id"]
    if pid in CLAIMED:
        c = CLAIMED[pid]
        m["checks"].append({
            "property_id": pid,
            "quick_cmd": f"./check {pid} --tier quick",
            "thorough_cmd": f"./check {pid} --tier thorough",
            "evidence_file": f"/verif/evidence/{pid}.json",
            "replay_cmd_template": f"./check {pid} --replay {{path}}",
            "engine": c["engine"],
            "technique": c["technique"],
            "level_claimed": {"category": c["level"], "text": c["text"], "design_ref": c["ref"]},
            "level_note": c["note"],
        })
    else:
        m["not_applicable"].append({"property_id": pid, "reason": NOT_BUILT})  # none left
json.dump(m, open(os.path.join(HERE, "MANIFEST.json"), "w"), indent=1)
print("claimed:", sorted(CLAIMED), "not claimed:", len(m["not_applicable"]))
