#!/bin/sh
# Offline setup: nothing to download. Verifies the tools the checks rely on are present.
set -e
cd "$(dirname "$0")"
command -v tlc >/dev/null
command -v tla-sany >/dev/null
/venv/bin/python -c "import typelib, hypothesis" 
mkdir -p evidence replays
echo "setup ok"
