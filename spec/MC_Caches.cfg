SPECIFICATION Spec
CONSTANTS
  MaxOps = 4
  KeyIgnoresDetail = FALSE
  SharesResult = FALSE
  Emit = FALSE
INVARIANT HistoryFree
CHECK_DEADLOCK FALSE
