SPECIFICATION Spec
CONSTANTS
  MaxOps = 4
  KeyIgnoresDetail = FALSE
  SharesResult = FALSE
  ReturnsInput = FALSE
  Emit = FALSE
INVARIANT HistoryFree
INVARIANT ResultsIndependentOfInputs
CHECK_DEADLOCK FALSE
