SPECIFICATION Spec
CONSTANTS
  Profile = "quick"
  Emit = FALSE
INVARIANT StripIdempotent
INVARIANT UniverseWellFormed
CHECK_DEADLOCK FALSE
