SPECIFICATION TraceSpec
CONSTANTS
  Bases = {"B1", "B2", "B3"}
  Forms = {"self", "newtype", "alias", "salias", "final", "classvar", "fref", "nref", "aref", "sref"}
  Emit = FALSE
INVARIANT MemoSound
POSTCONDITION Consumed
CHECK_DEADLOCK FALSE
