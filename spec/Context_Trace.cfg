SPECIFICATION TraceSpec
CONSTANTS
  Bases = {"B1", "B2", "B3", "B4"}
  Forms = {"self", "newtype", "alias", "salias", "final", "classvar", "fref", "nref", "aref", "sref", "nt_al", "nt_nt", "nt_sal", "fin_nt"}
  Emit = FALSE
INVARIANT MemoSound
POSTCONDITION Consumed
CHECK_DEADLOCK FALSE
