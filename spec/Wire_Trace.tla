----------------------------- MODULE Wire_Trace -----------------------------
(* Code -> spec for the value-level properties.  One log, several event kinds: *)
(*   "unmarshal"   C03  result conforms to T or the call raised                *)
(*   "passthrough" C13  unmarshal(T, v) = v for valid v made of exact classes  *)
(*   "idem"        C13  unmarshal(T, unmarshal(T, x)) = unmarshal(T, x)        *)
(*   "roundtrip"   C01  unmarshal(marshal(v)) = v (strict) or weak fixpoint    *)
(*   "marshal"     C06  output is plain JSON data, stable, unshared, v intact  *)
(*   "litreject"   C06  non-member of a Literal is rejected with ValueError    *)
EXTENDS Terms, IOUtils

Log == ndJsonDeserialize(IOEnv.TRACE_FILE)
VARIABLE l

\* Which law applies to a union (strict or weak) is read off the real member routines: an earlier member that takes a
\* later member's value makes the union ambiguous.  What may be taken over is bounded here: a collection, mapping or
\* fixed-tuple member takes iterables, records and texts, never a scalar (number, None, date/time, Decimal, UUID, or a
\* member of an enumeration that is not a text).
ScalarArg(w) == w.ak \in {"int", "bool", "float", "none", "sc", "date", "dt", "time", "td"} \/ (w.ak = "enum" /\ w.mix # "str")
ContainerTookScalar(w) == w.mk \in {"coll", "map", "tup"} /\ ScalarArg(w)

Clause(e) ==
  CASE e.ev = "unmarshal" ->
         \* (events recorded from the repository's own tests carry the table of the classes their annotation mentions)
         (IF e.out.k = "raised" THEN "" ELSE Conf(e.T, e.out.r, IF "defs" \in DOMAIN e THEN e.defs ELSE Defs, "Conforms", FALSE))
    [] e.ev = "passthrough" ->
         (IF ~Exact(e.T, e.v, Defs) THEN "NOTVALID"                    \* harness gave a non-exact value: skip, counted
          ELSE IF e.out.k = "raised" THEN "PassThrough.raised"
          ELSE IF e.out.r # e.v THEN "PassThrough.changed" ELSE "")
    [] e.ev = "idem" ->
         (IF e.out2.k = "raised" THEN "Idempotent.raised"
          ELSE IF e.out2.r # e.out1.r THEN "Idempotent.changed" ELSE "")
    [] e.ev = "roundtrip" ->
         (IF ~Exact(e.T, e.v, Defs) THEN "NOTVALID"
          ELSE IF \E i \in 1..Len(e.ambw) : ContainerTookScalar(e.ambw[i]) THEN "Union.containerMemberTookScalar"
          ELSE IF e.w.k = "raised" THEN "RoundTrip.marshal.raised"
          ELSE IF e.r.k = "raised" THEN "RoundTrip.unmarshal.raised"
          ELSE IF e.w2.k = "raised" THEN "RoundTrip.remarshal.raised"
          ELSE IF ~WEq(e.T, e.w.r, e.w2.r, Defs) THEN "RoundTrip.weakfixpoint"
          ELSE IF ~e.amb /\ e.r.r # e.v THEN "RoundTrip.strict" ELSE "")
    [] e.ev = "marshal" ->
         (IF "wrapper" \in DOMAIN e /\ ~e.wrapper THEN "Marshal.entryPointsDisagree"     \* marshal(v, t=T) vs marshaller(T)(v)
          ELSE IF e.w.k = "raised" THEN "Marshal.raised"
          ELSE IF ~IsWire(e.w.r) THEN WireBad(e.w.r, "IsWire")
          ELSE IF ~e.json_ok THEN "Marshal.jsonEncoderRejects"
          ELSE IF ~e.again THEN "Marshal.notDeterministic"
          ELSE IF e.shared # 0 THEN "Marshal.sharesContainerWithInput"
          ELSE IF ~e.intact THEN "Marshal.inputModified" ELSE "")
    [] e.ev = "litreject" ->
         (IF e.w.k = "raised" /\ e.w.e = "ValueError" THEN "" ELSE "Marshal.literalNonMemberNotRejected")
    [] OTHER -> "UNKNOWN-EVENT"

TraceInit == l = 1 /\ T = NoneT /\ phase = "-"
\* implementation-shaped: the marshalled form is the reference wire form (drift only, see Wire.tla)
WireDrift(e) ==
  e.ev = "roundtrip" /\ ~e.amb /\ e.w.k = "ok" /\ Exact(e.T, e.v, Defs) /\ ~IsWireOf(e.T, e.v, e.w.r, Defs)

TraceNext ==
  /\ l <= Len(Log)
  /\ l' = l + 1
  /\ LET e == Log[l] c == Clause(e) IN
     /\ (IF c = "" THEN TRUE ELSE PrintT(ToJson([rej |-> l, clause |-> c])))
     /\ (IF WireDrift(e) THEN PrintT(ToJson([drift |-> l, what |-> "wire form differs from the reference"])) ELSE TRUE)
  /\ UNCHANGED vars
TraceSpec == TraceInit /\ [][TraceNext]_<<vars, l>>
Consumed == PrintT(ToJson([consumed |-> TLCGet("stats").diameter - 1]))
=============================================================================
