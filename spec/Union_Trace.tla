---------------------------- MODULE Union_Trace ----------------------------
(* Code -> spec: every recorded call of a real union routine, together with   *)
(* the outcomes of the independently built member routines on the same input, *)
(* must satisfy the reference relation UnionRef of module Union.              *)
EXTENDS Union, Json, IOUtils

Log == ndJsonDeserialize(IOEnv.TRACE_FILE)
VARIABLE l

\* logged member: [none |-> BOOLEAN, ok |-> BOOLEAN, v |-> value key or exception class]
\* outcomes of the independently built member routines; the None member is not taken from the log:
\* by the statement it accepts exactly None (a logged disagreement is reported as its own clause)
LoggedOuts(e) == [j \in 1..Len(e.members) |->
                    IF e.members[j].none THEN (IF e.xnone THEN "ok" ELSE "rej")
                    ELSE IF e.members[j].ok THEN "ok" ELSE "rej"]
NoneMemberOK(e) == \A j \in 1..Len(e.members) : e.members[j].none => (e.members[j].ok <=> e.xnone)
LoggedHasNone(e) == \E j \in 1..Len(e.members) : e.members[j].none

Want(e) ==
  LET ref == UnionRefO(LoggedHasNone(e), LoggedOuts(e), e.xnone) IN
  IF ref.k = "raised" THEN [ok |-> FALSE, v |-> "ValueError"]
  ELSE IF ref.by = 0 THEN [ok |-> TRUE, v |-> e.nonekey]
  ELSE [ok |-> TRUE, v |-> e.members[ref.by].v]

Clause(e, w) ==
  IF ~NoneMemberOK(e) THEN "NoneMemberAcceptsExactlyNone"
  ELSE IF e.res = w THEN ""
  ELSE IF e.xnone /\ LoggedHasNone(e) THEN "NoneHonoured"
  ELSE IF ~w.ok THEN (IF e.res.ok THEN "AcceptedThoughAllReject" ELSE "OnlyValueError")
  ELSE IF ~e.res.ok THEN "RaisedThoughMemberAccepts"
  ELSE "FirstAcceptor"

TraceInit == l = 1 /\ ms = <<>> /\ xnone = FALSE /\ dir = "-" /\ stack = <<>> /\ pc = "-" /\ i = 0
             /\ result = [k |-> "none"]
TraceNext ==
  /\ l <= Len(Log)
  /\ l' = l + 1
  /\ LET e == Log[l]
         w == Want(e)
         c == Clause(e, w) IN
     IF c = "" THEN TRUE ELSE PrintT(ToJson([rej |-> l, clause |-> c, want |-> w]))
  /\ UNCHANGED vars
TraceSpec == TraceInit /\ [][TraceNext]_<<vars, l>>
Consumed == PrintT(ToJson([consumed |-> TLCGet("stats").diameter - 1]))
=============================================================================
