SPECIFICATION TraceSpec
CONSTANTS
  MaxLen = 5
  Kinds = {"dict"}
  Shapes = {"s"}
  Excused = {}
  Emit = FALSE
POSTCONDITION Consumed
CHECK_DEADLOCK FALSE
