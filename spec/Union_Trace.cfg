SPECIFICATION TraceSpec
CONSTANTS
  MaxLen = 4
  ExcKinds = {"rej"}
  Suppressed = {"ALL"}
  NoneAcceptsAll = FALSE
  Rotation = "none_first"
POSTCONDITION Consumed
CHECK_DEADLOCK FALSE
