SPECIFICATION TraceSpec
CONSTANTS
  MaxLen = 4
  ExcKinds = {"rej"}
  Suppressed = {"ALL"}
  Rotation = "none_first"
POSTCONDITION Consumed
CHECK_DEADLOCK FALSE
