------------------------------ MODULE Factory ------------------------------
(***************************************************************************)
(* The routine factory: typelib.unmarshals.api.unmarshaller /              *)
(* typelib.marshals.api.marshaller (the two are line-for-line parallel)    *)
(* on top of graph.get_type_graph and ctx.TypeContext.                     *)
(*                                                                         *)
(* Phase 1 (graph.py:88-170) builds the node set exactly as Graph.tla does *)
(* but over a richer abstract type language that distinguishes a node's    *)
(* declared type from its unwrapped form:                                  *)
(*   <<"S",0,"">>      a scalar                                            *)
(*   <<"cls",i,"">>    class C_i (fields given by the topology)            *)
(*   <<"gen",i,k>>     structural type of kind k around C_i                *)
(*                     (Optional[C_i], list[C_i], ...)                     *)
(*   <<"nt",i,"">>     a named wrapper (NewType / value alias) of C_i      *)
(*   <<"al",i,k>>      a named alias of the structural type <<"gen",i,k>>  *)
(*   <<"ref-X",i,k>>   ForwardRef naming the type <<X,i,k>>                *)
(*   <<"bare",0,k>>    ForwardRef naming only the bare origin of a         *)
(*                     structural type ('list'): its parameters are gone   *)
(*                                                                         *)
(* Phase 2 (api.py:41-78) walks the nodes in *any* order graphlib may      *)
(* produce (Bind(n) is enabled once every predecessor of n is bound), and  *)
(* for each node writes a routine into the TypeContext under node.type and *)
(* node.unwrapped.  A routine is [kind, t]: "real" (built by a handler for *)
(* t), "delayed" (a proxy that builds unmarshaller(t) on first call) or    *)
(* "noop" (the warned fallback of the structured routines).  Composite     *)
(* routines resolve their members through the context at construction:     *)
(* by subscription (collections, unions, tuples: KeyError if absent) or by *)
(* .get(hint) or .get(resolved) (structured classes: no-op if absent).     *)
(* TypeContext lookups follow ctx.py (unwrapped form, then the forward     *)
(* reference naming the key; a hit through the unwrapped form is written   *)
(* back).                                                                  *)
(*                                                                         *)
(* Reference layer: every member slot of every composite routine denotes   *)
(* exactly the member's type (a proxy denotes what it will build), nothing *)
(* is a no-op, construction never fails, the root routine is a real one.   *)
(*                                                                         *)
(* The constants select the behaviour of older revisions and of known      *)
(* wrong variants; the configurations that set them must fail.             *)
(***************************************************************************)
EXTENDS Naturals, Sequences, FiniteSets, TLC, Json

CONSTANTS NClasses, MaxFields,
          Kinds,         \* structural kinds, subset of {"opt", "list", "dict", "tupv"}
          Direct,        \* TRUE: a field may be a class itself
          Named,         \* TRUE: include the named wrappers <<"nt",i,"">> and <<"al",i,k>>
          AliasCut,      \* "defer_self": a revisited alias of a structural type is deferred as the type itself (current)
                         \* "bare_ref":   it becomes ForwardRef(<bare origin>)  (before commit f2ff7f5)
          GenericCut,    \* "defer_self" (current) | "bare_ref": a revisited structural type becomes ForwardRef(<bare origin>) (pinned)
          ProxyReuse,    \* "never_for_real": a placeholder found under node.type is not returned for the real node (current)
                         \* "always":         whatever is found under node.type is returned
          GetUsesMissing,\* TRUE: TypeContext.get goes through __getitem__/__missing__ (current); FALSE: plain `in` test
          Emit

Classes == 1..NClasses
S == <<"S", 0, "">>
Cls(i) == <<"cls", i, "">>
Gen(k, i) == <<"gen", i, k>>
Nt(i) == <<"nt", i, "">>
Al(k, i) == <<"al", i, k>>
RefTo(t) == <<"ref-" \o t[1], t[2], t[3]>>
Bare(t) == <<"bare", 0, t[3]>>

IsRef(t) == t[1] \in {"ref-cls", "ref-nt", "ref-al", "ref-S", "bare"}
Unwrap(t) == CASE t[1] = "nt" -> Cls(t[2]) [] t[1] = "al" -> Gen(t[3], t[2]) [] OTHER -> t
IsStructural(t) == t[1] = "gen"
IsNamedType(t) == t[1] \in {"cls", "nt", "al"}
\* what a forward reference evaluates to
Eval(t) == CASE t[1] = "ref-cls" -> Cls(t[2]) [] t[1] = "ref-nt" -> Nt(t[2]) [] t[1] = "ref-al" -> Al(t[3], t[2])
             [] OTHER -> t
\* refs.forwardref(key): named types by name; a subscripted generic only by its origin's name
ForwardRefOf(t) == IF IsStructural(t) THEN Bare(t) ELSE RefTo(t)

FieldTypes == {S} \cup {Gen(k, i) : k \in Kinds, i \in Classes}
                  \cup (IF Direct THEN {Cls(i) : i \in Classes} ELSE {})
                  \cup (IF Named THEN {Nt(i) : i \in Classes} \cup {Al(k, i) : k \in Kinds, i \in Classes} ELSE {})
Topology == [Classes -> UNION {[1..n -> FieldTypes] : n \in 0..MaxFields}]
Roots == (FieldTypes \ {S}) \cup {Cls(i) : i \in Classes}

\* direct members of an *unwrapped* type, in declaration order, with the field index as var
MemberSeq(tp, u) ==
  IF u[1] = "cls" THEN [j \in 1..Len(tp[u[2]]) |-> <<tp[u[2]][j], j>>]
  ELSE IF u[1] = "gen" THEN << <<Cls(u[2]), 0>> >>
  ELSE <<>>

Node(t, u, v, d) == [t |-> t, u |-> u, var |-> v, def |-> d]
Routine(kind, t) == [kind |-> kind, t |-> t]
NoKey == <<"-", 0, "">>

VARIABLES topo, root, phase,
          queue, visited, nodes, edges,          \* phase 1, as in graph.py
          acyc,                                  \* whether graphlib accepts the predecessor relation (set once)
          bound, ctx, slots, err                 \* phase 2, as in api.py
vars == <<topo, root, phase, queue, visited, nodes, edges, acyc, bound, ctx, slots, err>>

Init == /\ topo \in Topology
        /\ root \in Roots
        /\ phase = "graph"
        /\ queue = <<Node(root, Unwrap(root), 0, FALSE)>>
        /\ visited = {root, Unwrap(root)}
        /\ nodes = {Node(root, Unwrap(root), 0, FALSE)}
        /\ edges = {}
        /\ acyc = TRUE /\ bound = {} /\ ctx = <<>> /\ slots = <<>> /\ err = ""

(******************************* phase 1 ***********************************)
CutStructural(child, u) == IF AliasCut = "defer_self" THEN IsStructural(u) ELSE IsStructural(child)
RECURSIVE Walk(_, _, _)
Walk(ms, vis, acc) ==
  IF ms = <<>> THEN [kids |-> acc, vis |-> vis]
  ELSE LET child == Head(ms)[1]  v == Head(ms)[2]  u == Unwrap(child)
           seen == child \in vis \/ u \in vis IN
       IF child = S THEN Walk(Tail(ms), vis \cup {S}, Append(acc, Node(S, S, v, FALSE)))     \* never cyclic
       ELSE IF seen /\ CutStructural(child, u) /\ GenericCut = "defer_self"
            THEN Walk(Tail(ms), vis, Append(acc, Node(child, u, v, TRUE)))
       ELSE IF seen
            THEN Walk(Tail(ms), vis, Append(acc, Node(ForwardRefOf(child), ForwardRefOf(u), v, TRUE)))
       ELSE Walk(Tail(ms), vis \cup {child, u}, Append(acc, Node(child, u, v, FALSE)))

Pop ==
  /\ phase = "graph" /\ queue # <<>>
  /\ LET parent == Head(queue)
         w == Walk(MemberSeq(topo, Unwrap(parent.t)), visited, <<>>)
         kids == {w.kids[j] : j \in 1..Len(w.kids)}
         fresh == SelectSeq(w.kids, LAMBDA k : ~k.def /\ k \notin nodes)
     IN /\ nodes' = nodes \cup kids
        /\ edges' = edges \cup {<<parent, k>> : k \in kids}
        /\ visited' = w.vis
        /\ queue' = Tail(queue) \o fresh
  /\ UNCHANGED <<topo, root, phase, acyc, bound, ctx, slots, err>>


(******************************* phase 2 ***********************************)
Has(c, k) == k \in DOMAIN c
Put(c, k, r) == [x \in DOMAIN c \cup {k} |-> IF x = k THEN r ELSE c[x]]

\* dict.__getitem__ with TypeContext.__missing__: [ok, r, c] -- the routine found and the context afterwards
Subscript(c, k) ==
  IF Has(c, k) THEN [ok |-> TRUE, r |-> c[k], c |-> c]
  ELSE IF IsRef(k) THEN [ok |-> FALSE, r |-> Routine("none", NoKey), c |-> c]
  ELSE LET u == Unwrap(k) IN
       IF Has(c, u) THEN [ok |-> TRUE, r |-> c[u], c |-> Put(c, k, c[u])]          \* written back under k
       ELSE LET f == ForwardRefOf(k) IN
            IF Has(c, f) THEN [ok |-> TRUE, r |-> c[f], c |-> c]
            ELSE [ok |-> FALSE, r |-> Routine("none", NoKey), c |-> c]
Get(c, k) == IF GetUsesMissing THEN Subscript(c, k)
             ELSE IF Has(c, k) THEN [ok |-> TRUE, r |-> c[k], c |-> c] ELSE [ok |-> FALSE, r |-> Routine("none", NoKey), c |-> c]

\* members of a composite are resolved one after the other, the context (memo) threading through
RECURSIVE Resolve(_, _, _, _)
Resolve(ms, structured, c, acc) ==
  IF ms = <<>> THEN [rs |-> acc, c |-> c, err |-> ""]
  ELSE LET m == Head(ms)[1]
           look == IF structured THEN Get(c, m) ELSE Subscript(c, m) IN
       IF look.ok THEN Resolve(Tail(ms), structured, look.c, Append(acc, look.r))
       ELSE IF structured THEN Resolve(Tail(ms), structured, look.c, Append(acc, Routine("noop", m)))
       ELSE [rs |-> acc, c |-> c, err |-> "KeyError"]

\* _get_unmarshaller(node, context): [r, c, rs, err]
GetRoutine(n, c) ==
  IF Has(c, n.t) /\ (n.def \/ c[n.t].kind # "delayed" \/ ProxyReuse = "always")
  THEN [r |-> c[n.t], c |-> c, rs |-> <<>>, err |-> "", built |-> FALSE]
  ELSE IF n.def /\ ~IsRef(n.u)
  THEN [r |-> Routine("delayed", n.u), c |-> c, rs |-> <<>>, err |-> "", built |-> FALSE]
  ELSE IF IsRef(n.u)                                   \* first handler: isforwardref -> the delayed proxy
  THEN [r |-> Routine("delayed", n.u), c |-> c, rs |-> <<>>, err |-> "", built |-> FALSE]
  ELSE LET res == Resolve(MemberSeq(topo, n.u), n.u[1] = "cls", c, <<>>) IN
       [r |-> Routine("real", n.u), c |-> res.c, rs |-> res.rs, err |-> res.err, built |-> TRUE]

Preds(n) == {e[2] : e \in {x \in edges : x[1] = n}}
RECURSIVE ReachFrom(_, _)
ReachFrom(X, k) == IF k = 0 THEN X ELSE
   LET Y == X \cup UNION {Preds(n) : n \in X} IN IF Y = X THEN X ELSE ReachFrom(Y, k - 1)
GraphAcyclic == \A n \in nodes : n \notin ReachFrom(Preds(n), Cardinality(nodes))

GraphDone ==
  /\ phase = "graph" /\ queue = <<>>
  /\ phase' = "bind" /\ acyc' = GraphAcyclic
  /\ UNCHANGED <<topo, root, queue, visited, nodes, edges, bound, ctx, slots, err>>

Bind(n) ==
  /\ phase = "bind" /\ err = "" /\ acyc /\ n \in nodes \ bound /\ Preds(n) \subseteq bound
  /\ LET g == GetRoutine(n, ctx)
         c1 == Put(g.c, n.t, g.r)
         c2 == Put(c1, n.u, g.r) IN
     /\ err' = g.err
     /\ ctx' = IF g.err = "" THEN c2 ELSE ctx
     /\ slots' = IF g.built /\ g.err = "" THEN Put(slots, n, g.rs) ELSE slots
     /\ bound' = bound \cup {n}
  /\ UNCHANGED <<topo, root, phase, queue, visited, nodes, edges, acyc>>

CycleError ==      \* graphlib refuses a cyclic predecessor relation
  /\ phase = "bind" /\ err = "" /\ ~acyc
  /\ err' = "CycleError"
  /\ UNCHANGED <<topo, root, phase, queue, visited, nodes, edges, acyc, bound, ctx, slots>>

Finish ==
  /\ phase = "bind" /\ (err # "" \/ bound = nodes)
  /\ phase' = "done"
  /\ UNCHANGED <<topo, root, queue, visited, nodes, edges, acyc, bound, ctx, slots, err>>

Next == Pop \/ GraphDone \/ (\E n \in nodes : Bind(n)) \/ CycleError \/ Finish
Spec == Init /\ [][Next]_vars /\ WF_vars(Next)

(************************* reference layer *********************************)
\* what a routine converts: a real one its own type, a proxy whatever unmarshaller(t) will build for it
Denotes(r) == IF r.kind = "delayed" THEN Unwrap(Eval(r.t)) ELSE Unwrap(r.t)

BuildNeverFails == phase = "done" => err = ""
RoutingCorrect ==
  phase = "done" /\ err = "" =>
    \A n \in DOMAIN slots :
      LET ms == MemberSeq(topo, n.u) IN
      /\ Len(slots[n]) = Len(ms)
      /\ \A j \in 1..Len(ms) : slots[n][j].kind # "noop" /\ Denotes(slots[n][j]) = Unwrap(ms[j][1])
\* the routine returned for the root is a real one for the root's unwrapped type (a proxy for the root
\* itself would call unmarshaller(root) again from inside unmarshaller(root)'s result: endless recursion)
RootIsReal == phase = "done" /\ err = "" => (Has(ctx, root) /\ ctx[root].kind = "real" /\ ctx[root].t = Unwrap(root))
\* a proxy never stands for something that itself needs no proxy resolution to be wrong: every proxy in the
\* context denotes a type some root of the universe builds (TLC explores every such root)
ProxiesDenoteTypes == phase = "done" /\ err = "" =>
    \A k \in DOMAIN ctx : ctx[k].kind = "delayed" => Denotes(ctx[k])[1] \in {"cls", "gen"}
Terminates == <>(phase = "done")
\* spec -> code: one line per (topology, root); used with CONSTRAINT InitOnly so that nothing else is explored
EmitCase == (Emit /\ phase = "graph" /\ edges = {} /\ Len(queue) = 1) => PrintT(ToJson([topo |-> topo, root |-> root]))
InitOnly == TLCGet("level") < 2
=============================================================================
