SPECIFICATION Spec
CONSTANTS
  Days <- DaysSet
  Secs <- SecsSet
  Micros <- MicrosSet
INVARIANT WriterMeansTheValue
INVARIANT NegateInvolutive
INVARIANT WriterWellFormedIffTimePart
CHECK_DEADLOCK FALSE
