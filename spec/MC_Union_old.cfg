SPECIFICATION Spec
CONSTANTS
  MaxLen = 3
  ExcKinds = {"ValueError", "TypeError", "AttributeError", "InvalidOperation", "OverflowError"}
  Suppressed = {"ValueError", "TypeError", "SyntaxError", "AttributeError"}
  NoneAcceptsAll = TRUE
  Rotation = "last_first"
INVARIANT Refines
CHECK_DEADLOCK FALSE
