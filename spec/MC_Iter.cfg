SPECIFICATION Spec
CONSTANTS
  MaxLen = 3
  Kinds = {"dict", "odict", "mproxy", "cmap", "dc", "dcslots", "dcchild", "dcslotschild", "plain", "slotsonly", "slotsonlychild", "slotsonlygrand", "plainchild", "plaingrand", "varsonly", "dcfalsy", "plaindesc", "nt", "ntfalsy", "cmapfalsy", "dictget",
           "list", "tuple", "set", "frozenset", "deque", "str", "bytes", "gen", "iter", "citer"}
  Shapes = {"s", "z", "p", "l", "t", "s2", "c", "e"}
  Excused = {"mixed_first_pair"}
  Emit = FALSE
INVARIANT Refines
INVARIANT EachOnce
INVARIANT EmptyYieldsNothing
CHECK_DEADLOCK FALSE
