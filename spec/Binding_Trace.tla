---------------------------- MODULE Binding_Trace ----------------------------
(* Code -> spec: every recorded call through bind(f) / wrap(f) must deliver each *)
(* argument to the parameter Python binds it to, converted by that parameter's   *)
(* unmarshaller (BindRef of module Binding), or raise TypeError where Python     *)
(* itself rejects the call.                                                      *)
EXTENDS Binding, IOUtils

Log == ndJsonDeserialize(IOEnv.TRACE_FILE)
VARIABLE l

AsSig(e) == [i \in 1..Len(e.sig) |-> [kind |-> e.sig[i].kind, dflt |-> e.sig[i].dflt, ann |-> e.sig[i].ann]]
AsCall(e) == [npos |-> e.npos, kw |-> {e.kw[i] : i \in 1..Len(e.kw)}]

\* observed: e.res in {"ok", "TypeError", other exception}, e.pos = <<<<land, conv>>...>>,
\* e.kwobs = <<<<name, land, conv>>...>>
Clause(e) ==
  LET s == AsSig(e) c == AsCall(e) IN
  IF ~Accepts(s, c) THEN (IF e.res = "TypeError" THEN "" ELSE "RejectedCallMustRaiseTypeError")
  ELSE IF e.res # "ok" THEN "AcceptedCallRaised"
  ELSE IF Len(e.pos) # c.npos THEN "PositionsPreserved"
  ELSE IF \E j \in 1..c.npos : e.pos[j][1] # Name(PosTarget(s, j)) THEN "PositionsPreserved"
  ELSE IF \E j \in 1..c.npos : e.pos[j][2] # RefPos(s, c)[j] THEN "PositionalConvertedByOwnParameter"
  ELSE IF {e.kwobs[i][1] : i \in 1..Len(e.kwobs)} # c.kw THEN "KeywordNamesPreserved"
  ELSE IF \E i \in 1..Len(e.kwobs) : e.kwobs[i][2] # Name(KwTarget(s, c.npos, e.kwobs[i][1])) THEN "KeywordNamesPreserved"
  ELSE IF \E i \in 1..Len(e.kwobs) : e.kwobs[i][3] # RefKw(s, c)[e.kwobs[i][1]] THEN "KeywordConvertedByOwnParameter"
  ELSE IF ~e.meta THEN "WrapPreservesMetadata"
  ELSE ""

TraceInit == l = 1 /\ sig = <<>> /\ call = [npos |-> 0, kw |-> {}] /\ phase = "-"
TraceNext ==
  /\ l <= Len(Log)
  /\ l' = l + 1
  /\ LET e == Log[l] c == Clause(e) IN
     IF c = "" THEN TRUE ELSE PrintT(ToJson([rej |-> l, clause |-> c, binder |-> BinderOf(AsSig(e)),
                                              accepts |-> Accepts(AsSig(e), AsCall(e))]))
  /\ UNCHANGED vars
TraceSpec == TraceInit /\ [][TraceNext]_<<vars, l>>
Consumed == PrintT(ToJson([consumed |-> TLCGet("stats").diameter - 1]))
=============================================================================
