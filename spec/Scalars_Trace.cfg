SPECIFICATION TraceSpec
CONSTANTS
  Days = {0}
  Secs = {0}
  Micros = {0}
POSTCONDITION Consumed
CHECK_DEADLOCK FALSE
