-------------------------------- MODULE Iter --------------------------------
(***************************************************************************)
(* serdes.iteritems / itervalues / get_items_iter / _is_iterable_of_pairs  *)
(* (src/typelib/serdes.py:264-412).                                        *)
(*                                                                         *)
(* An input x is [kind, elems]: its class kind and the shapes of its       *)
(* elements (values of a mapping, public field values of a structured      *)
(* object, members of an iterable).  Element i is identified by the tag    *)
(* "e<i>"; a pair-shaped element i consists of key "pk<i>" and value       *)
(* "pv<i>".  Yielded items are <<keytag, valuetag>>.                       *)
(*                                                                         *)
(* Reference layer: ItemsRef / ValuesRef, straight from the statement.     *)
(* Implementation-shaped layer: the peek at the first element, the         *)
(* per-class strategy memo, and the strategies, as written.                *)
(***************************************************************************)
EXTENDS Naturals, Sequences, FiniteSets, TLC, Json

CONSTANTS MaxLen,      \* longest element sequence
          Kinds,       \* class kinds explored
          Shapes,      \* element shapes explored
          Excused,     \* named deviations of the implementation that are known findings
          Emit         \* print every case with its reference answer (spec -> code)

\* ("...falsy": instances are falsy / claim length 0 although they have members -- __bool__ and __len__ belong to the value)
\* ("dictget": a dict subclass whose __getitem__ wraps what it stores: the pairs of a mapping are what items() yields)
Mappings  == {"dict", "odict", "mproxy", "cmap", "cmapfalsy", "dictget"}
\* ("...child": the class inherits its first fields from a base of the same flavour and declares the rest itself)
\* ("slotsonlychild": a subclass, without __slots__ of its own, of a slots-only class; "slotsonlygrand": a subclass that adds slots;
\*  "plainchild": annotated fields inherited from a base, and a member of its own whose annotation cannot be evaluated)
\*  "plaingrand": annotated members declared along a chain of three plain classes, and by both arms of a diamond above them;
\*  "plaindesc": every member is a property over a raw entry of the same name in the instance __dict__)
Structs   == {"dc", "dcslots", "plain", "slotsonly", "varsonly", "dcchild", "dcslotschild", "slotsonlychild", "slotsonlygrand", "plainchild", "plaingrand",
              "dcfalsy", "plaindesc"}
NTs       == {"nt", "ntfalsy"}
\* classes for which inspection.issequencetype holds (peeked with next(iter(x), ()))
SeqLike   == {"list", "tuple", "set", "frozenset", "deque", "str", "bytes"}
\* other iterables: wrapped in more_itertools.peekable
OneShot   == {"gen", "iter", "citer"}
Unordered == {"set", "frozenset"}
AllKinds  == Mappings \cup Structs \cup NTs \cup SeqLike \cup OneShot

\* element shapes: truthy scalar, falsy scalar, 2-tuple, 2-list, 3-tuple, 2-character string, character, empty tuple
\* "e": the empty tuple -- the very value a careless peek uses as its "nothing there" marker
AllShapes == {"s", "z", "p", "l", "t", "s2", "c", "e"}
PairShape(s)   == s \in {"p", "l"}                  \* what the statement calls a pair
PairishImpl(s) == s \in {"p", "l", "s2"}            \* iscollectiontype(cls) /\ len == 2

Tag(p, i) == p \o ToString(i)

Input == [kind : Kinds, elems : UNION {[1..n -> Shapes] : n \in 0..MaxLen}]

\* well-formed inputs: str/bytes consist of characters and only they do
\* (implications, not an equivalence: the empty input is well-formed for every kind)
WF(x) == /\ (x.kind \in {"str", "bytes"}) => (\A i \in 1..Len(x.elems) : x.elems[i] = "c")
         /\ (x.kind \notin {"str", "bytes"}) => (\A i \in 1..Len(x.elems) : x.elems[i] # "c")
         /\ (x.kind \in Unordered) => (\A i \in 1..Len(x.elems) : x.elems[i] # "l")   \* lists are unhashable
         /\ Cardinality({i \in 1..Len(x.elems) : x.elems[i] = "e"}) <= 1               \* elements stay distinguishable

(************************* reference layer *********************************)
N(x) == Len(x.elems)
IsIterableOfPairs(x) ==
  /\ x.kind \in SeqLike \cup OneShot
  /\ N(x) > 0
  /\ \A i \in 1..N(x) : PairShape(x.elems[i])

ItemsRef(x) ==
  IF x.kind \in Mappings THEN [i \in 1..N(x) |-> <<Tag("k", i), Tag("e", i)>>]
  ELSE IF x.kind \in Structs \cup NTs THEN [i \in 1..N(x) |-> <<Tag("f", i), Tag("e", i)>>]
  ELSE IF IsIterableOfPairs(x) THEN [i \in 1..N(x) |-> <<Tag("pk", i), Tag("pv", i)>>]
  ELSE [i \in 1..N(x) |-> <<Tag("i", i - 1), Tag("e", i)>>]

ValuesRef(x) == [i \in 1..N(x) |-> Tag("e", i)]

\* The statement leaves these inputs open (DESIGN.md C18 domain notes): iterables containing
\* 2-character strings (each is technically a 2-element collection).
Asserted(x) == x.kind \in SeqLike \cup OneShot => \A i \in 1..N(x) : x.elems[i] # "s2"

(******************** implementation-shaped layer **************************)
\* _is_iterable_of_pairs: [pairs |-> BOOLEAN, raised |-> exception or ""]
Peek(x) ==
  IF x.kind \in Mappings \cup Structs THEN [pairs |-> FALSE, raised |-> ""]   \* not iterable / mapping
  ELSE IF x.kind \in NTs THEN
       \* named tuples are tuples: peeked like any sequence unless the fix is in
       IF "nt_first_field_pair" \in Excused /\ N(x) > 0
       THEN [pairs |-> PairishImpl(x.elems[1]), raised |-> ""]
       ELSE [pairs |-> FALSE, raised |-> ""]
  ELSE IF N(x) = 0 THEN
       IF x.kind \in OneShot /\ "peek_empty_iterator" \in Excused
       THEN [pairs |-> FALSE, raised |-> "StopIteration"]      \* peekable.peek() on nothing
       ELSE [pairs |-> FALSE, raised |-> ""]
  ELSE [pairs |-> PairishImpl(x.elems[1]), raised |-> ""]       \* only the FIRST element is looked at

Strategy(kind) ==      \* get_items_iter, memoised per class
  IF kind \in Mappings THEN "items"
  ELSE IF kind \in NTs THEN "ntfields"
  ELSE IF kind \in SeqLike \cup OneShot THEN "enumerate"
  ELSE "fields"

RawItem(x, i) == IF PairShape(x.elems[i]) THEN <<Tag("pk", i), Tag("pv", i)>>
                 ELSE <<"raw", Tag("e", i)>>        \* a non-pair yielded where a pair was promised

ByStrategy(x) ==
  CASE Strategy(x.kind) = "items"     -> [i \in 1..N(x) |-> <<Tag("k", i), Tag("e", i)>>]
    [] Strategy(x.kind) = "ntfields"  -> [i \in 1..N(x) |-> <<Tag("f", i), Tag("e", i)>>]
    [] Strategy(x.kind) = "fields"    -> [i \in 1..N(x) |-> <<Tag("f", i), Tag("e", i)>>]
    [] Strategy(x.kind) = "enumerate" -> [i \in 1..N(x) |-> <<Tag("i", i - 1), Tag("e", i)>>]

ItemsImpl(x) ==
  LET p == Peek(x) IN
  IF p.raised # "" THEN [raised |-> p.raised, items |-> <<>>]
  ELSE IF p.pairs THEN [raised |-> "", items |-> [i \in 1..N(x) |-> RawItem(x, i)]]
  ELSE [raised |-> "", items |-> ByStrategy(x)]

ValuesImpl(x) == [i \in 1..N(x) |-> ByStrategy(x)[i][2]]     \* (v for k, v in iterate(val))

\* regions of the input space where a listed (excused) deviation applies
InExcusedRegion(x) ==
  \/ "mixed_first_pair" \in Excused /\ x.kind \in SeqLike \cup OneShot /\ N(x) > 0
       /\ ~IsIterableOfPairs(x)
       /\ IF x.kind \in Unordered THEN \E i \in 1..N(x) : PairShape(x.elems[i])   \* any member may come first
          ELSE PairShape(x.elems[1])
  \/ "nt_first_field_pair" \in Excused /\ x.kind \in NTs /\ N(x) > 0 /\ PairishImpl(x.elems[1])
  \/ "peek_empty_iterator" \in Excused /\ x.kind \in OneShot /\ N(x) = 0

(**************************** state machine ********************************)
VARIABLES x, memo, phase, out
vars == <<x, memo, phase, out>>

Init == /\ x \in {y \in Input : WF(y)}
        /\ memo = [c \in {} |-> ""]
        /\ phase = "call" /\ out = [raised |-> "", items |-> <<>>]

Call == /\ phase = "call"
        /\ memo' = [c \in DOMAIN memo \cup {x.kind} |-> Strategy(c)]
        /\ out' = ItemsImpl(x)
        /\ phase' = "done"
        /\ x' = x
        /\ (Emit => PrintT(ToJson([kind |-> x.kind, elems |-> x.elems, asserted |-> Asserted(x),
                                   items |-> ItemsRef(x), values |-> ValuesRef(x)])))
Next == Call
Spec == Init /\ [][Next]_vars

(***************************** properties **********************************)
Refines ==
  (phase = "done" /\ Asserted(x) /\ ~InExcusedRegion(x)) =>
      /\ out.raised = ""
      /\ out.items = ItemsRef(x)
      /\ ValuesImpl(x) = ValuesRef(x)

\* counting invariants of the reference itself
EachOnce == \A y \in {x} : {ItemsRef(y)[i][2] : i \in 1..N(y)} \in
               {{Tag("e", i) : i \in 1..N(y)}, {Tag("pv", i) : i \in 1..N(y)}}
EmptyYieldsNothing == N(x) = 0 => ItemsRef(x) = <<>> /\ ValuesRef(x) = <<>>
=============================================================================
