SPECIFICATION Spec
CONSTANTS
  Bases = {"B1"}
  Forms = {"self", "newtype", "alias", "salias", "final", "classvar", "fref", "nref", "aref", "sref", "nt_al", "nt_nt", "nt_sal", "fin_nt"}
  Emit = FALSE
INVARIANT TypeOK
INVARIANT Refines
INVARIANT StoredFoundUnderItself
INVARIANT MemoSound
PROPERTY LookupStable
CHECK_DEADLOCK FALSE
