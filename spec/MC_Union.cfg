SPECIFICATION Spec
CONSTANTS
  MaxLen = 4
  ExcKinds = {"ValueError", "TypeError", "AttributeError", "InvalidOperation", "OverflowError"}
  Suppressed = {"ALL"}
  NoneAcceptsAll = FALSE
  Rotation = "none_first"
INVARIANT Refines
INVARIANT NoneHonoured
INVARIANT OnlyValueError
PROPERTY Terminates
CHECK_DEADLOCK FALSE
