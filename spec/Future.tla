------------------------------- MODULE Future -------------------------------
(***************************************************************************)
(* typelib.py.future.transform  (src/typelib/py/future.py:25-115):         *)
(* rewriting PEP 604 / PEP 585 annotation expressions for old interpreters.*)
(*                                                                         *)
(* Expression ASTs are terms:                                              *)
(*   name(id) attr(v,a) sub(v,sl) tuple(xs) list(xs) bitor(l,r) binop(l,r) *)
(*   const(c) none ell call(f,xs)                                          *)
(*                                                                         *)
(* Reference layer: Sem(e), the canonical type structure of an expression  *)
(* (unions flattened and de-duplicated in order, builtin generic names     *)
(* identified with their typing names, constants opaque) and the five      *)
(* properties of the statement.  Implementation-shaped layer: Tr(e), the   *)
(* NodeTransformer as written (visit_BinOp / visit_Name / visit_Subscript /*)
(* visit_Tuple, generic_visit elsewhere, no descent into non-| BinOps).    *)
(***************************************************************************)
EXTENDS Naturals, Sequences, FiniteSets, TLC, Json

CONSTANTS Depth,        \* nesting depth of generated expressions
          LeafSet,      \* "small" | "full"
          Emit

N(id)        == [k |-> "name", id |-> id]
A(v, a)      == [k |-> "attr", v |-> v, a |-> a]
S(v, sl)     == [k |-> "sub", v |-> v, sl |-> sl]
T(xs)        == [k |-> "tuple", xs |-> xs]
L(xs)        == [k |-> "list", xs |-> xs]
Or(l, r)     == [k |-> "bitor", l |-> l, r |-> r]
Bin(l, r)    == [k |-> "binop", l |-> l, r |-> r]
C(c)         == [k |-> "const", c |-> c]
NoneE        == [k |-> "none"]
Ell          == [k |-> "ell"]
Call(f, xs)  == [k |-> "call", f |-> f, xs |-> xs]

Generic(id) == CASE id = "dict" -> "Dict" [] id = "list" -> "List" [] id = "set" -> "Set"
                 [] id = "tuple" -> "Tuple" [] id = "Pattern" -> "Pattern" [] OTHER -> ""
TypingAttr(a) == A(N("typing"), a)

(******************** implementation-shaped layer **************************)
\* visit_BinOp: walk down the left spine while the left operand is ANY BinOp
RECURSIVE Spine(_)
Spine(e) == IF e.k \in {"bitor", "binop"} THEN Spine(e.l) \o <<e.r>> ELSE <<e>>

RECURSIVE Tr(_)
Tr(e) ==
  CASE e.k = "bitor" -> LET args == Spine(e) IN
                        S(TypingAttr("Union"), T([i \in 1..Len(args) |-> Tr(args[i])]))
    [] e.k = "binop" -> e                                   \* `return node`: no descent
    [] e.k = "name"  -> IF Generic(e.id) # "" THEN TypingAttr(Generic(e.id)) ELSE e
    [] e.k = "sub"   -> S(Tr(e.v), Tr(e.sl))
    [] e.k = "tuple" -> T([i \in 1..Len(e.xs) |-> Tr(e.xs[i])])
    [] e.k = "list"  -> L([i \in 1..Len(e.xs) |-> Tr(e.xs[i])])     \* generic_visit
    [] e.k = "attr"  -> A(Tr(e.v), e.a)                              \* generic_visit
    [] e.k = "call"  -> Call(Tr(e.f), [i \in 1..Len(e.xs) |-> Tr(e.xs[i])])
    [] OTHER -> e

(************************* reference layer *********************************)
Ref(n) == [k |-> "ref", n |-> n]
RECURSIVE Dedup(_)
Dedup(s) == IF s = <<>> THEN <<>>
            ELSE LET rest == Dedup(Tail(s)) IN
                 <<Head(s)>> \o SelectSeq(rest, LAMBDA x : x # Head(s))
RECURSIVE FlatSeq(_)
FlatSeq(ss) == IF ss = <<>> THEN <<>> ELSE Head(ss) \o FlatSeq(Tail(ss))

Members(sem) == IF sem.k = "union" THEN sem.ms ELSE <<sem>>
MkUnion(ms) == LET d == Dedup(ms) IN IF Len(d) = 1 THEN d[1] ELSE [k |-> "union", ms |-> d]

RECURSIVE Sem(_)
Sem(e) ==
  CASE e.k = "name"  -> Ref(IF Generic(e.id) # "" THEN "typing." \o Generic(e.id) ELSE e.id)
    [] e.k = "attr"  -> (IF e.v.k = "name" THEN Ref(e.v.id \o "." \o e.a)
                         ELSE [k |-> "getattr", v |-> Sem(e.v), a |-> e.a])
    [] e.k = "bitor" -> MkUnion(Members(Sem(e.l)) \o Members(Sem(e.r)))
    [] e.k = "sub"   -> LET f == Sem(e.v)
                            args == IF e.sl.k = "tuple" THEN [i \in 1..Len(e.sl.xs) |-> Sem(e.sl.xs[i])]
                                    ELSE <<Sem(e.sl)>> IN
                        IF f = Ref("typing.Union")
                        THEN MkUnion(FlatSeq([i \in 1..Len(args) |-> Members(args[i])]))
                        ELSE [k |-> "app", f |-> f, args |-> args]
    [] e.k = "tuple" -> [k |-> "tup", args |-> [i \in 1..Len(e.xs) |-> Sem(e.xs[i])]]
    [] e.k = "list"  -> [k |-> "lst", args |-> [i \in 1..Len(e.xs) |-> Sem(e.xs[i])]]
    [] e.k = "call"  -> [k |-> "call", f |-> Sem(e.f), args |-> [i \in 1..Len(e.xs) |-> Sem(e.xs[i])]]
    [] e.k = "binop" -> [k |-> "arith", l |-> Sem(e.l), r |-> Sem(e.r)]
    [] e.k = "const" -> [k |-> "const", c |-> e.c]
    [] e.k = "none"  -> Ref("None")
    [] OTHER         -> Ref("...")

Test(e, what) == CASE what = "bitor"   -> e.k = "bitor"
                   [] what = "arith"   -> e.k \in {"binop", "call"}
                   [] what = "generic" -> e.k = "name" /\ Generic(e.id) # ""
RECURSIVE HasNode(_, _)     \* does a node satisfying Test(node, what) occur (constants are leaves)?
HasNode(e, what) ==
  \/ Test(e, what)
  \/ CASE e.k \in {"bitor", "binop"} -> HasNode(e.l, what) \/ HasNode(e.r, what)
       [] e.k = "sub" -> HasNode(e.v, what) \/ HasNode(e.sl, what)
       [] e.k = "attr" -> HasNode(e.v, what)
       [] e.k \in {"tuple", "list"} -> \E i \in 1..Len(e.xs) : HasNode(e.xs[i], what)
       [] e.k = "call" -> HasNode(e.f, what) \/ \E i \in 1..Len(e.xs) : HasNode(e.xs[i], what)
       [] OTHER -> FALSE

\* the quantifier's annotation grammar; arithmetic and calls are "non-annotation expressions"
IsAnnotation(e) == ~HasNode(e, "arith")
HasConstruct(e) == HasNode(e, "bitor") \/ HasNode(e, "generic")

\* The five properties, as predicates over (input, output, output of a second application)
SemPreserved(i, o)   == IsAnnotation(i) => Sem(o) = Sem(i)
NoBitOrLeft(i, o)    == IsAnnotation(i) => ~HasNode(o, "bitor")
Fixpoint(o, o2)      == o2 = o
Identity(i, o)       == ~HasConstruct(i) => o = i
FormAsDocumented(i, o) == IsAnnotation(i) => ~HasNode(o, "generic")

(****************************** universe ***********************************)
Leaves == IF LeafSet = "small"
          THEN {N("int"), N("dict"), N("Foo"), A(N("m"), "list"), NoneE, C("a|b"), C("two  blanks")}
          ELSE {N("int"), N("str"), N("dict"), N("list"), N("tuple"), N("set"), N("Pattern"), N("Foo"),
                A(N("m"), "Foo"), A(N("m"), "list"), A(N("typing"), "Dict"), NoneE, Ell, C("a|b"), C("x[y]"), C("two  blanks")}
Heads == IF LeafSet = "small" THEN {N("list"), N("Foo"), A(N("typing"), "Optional")}
         ELSE {N("list"), N("dict"), N("tuple"), N("Foo"), N("Literal"), A(N("typing"), "Optional"),
               A(N("typing"), "Union"), A(N("typing"), "Callable"), N("Annotated"),
               \* a user's own generic that is spelled like a builtin one, qualified by its module
               A(N("m"), "dict")}

RECURSIVE TermsUpTo(_)
TermsUpTo(d) ==
  IF d = 0 THEN Leaves
  ELSE LET P == TermsUpTo(d - 1) IN
       P \cup {Or(a, b) : a \in P, b \in P}
         \cup {S(h, a) : h \in Heads, a \in P}
         \cup {T(<<a, b>>) : a \in P, b \in P}
         \cup {L(<<a>>) : a \in P}

VARIABLES e, out, phase
vars == <<e, out, phase>>
Init == e \in TermsUpTo(Depth) /\ out = e /\ phase = "call"
Step == /\ phase = "call" /\ phase' = "done" /\ e' = e
        /\ out' = Tr(e)
        /\ (Emit => PrintT(ToJson(e)))
Spec == Init /\ [][Step]_vars
\* the same universe built in two stages -- the first component, then one more constructor layer around it -- so that TLC's
\* workers share the enumeration (initial states are computed by one thread; TermsUpTo(2) over the full leaf set has 0.76 M)
InitStaged == e \in TermsUpTo(Depth - 1) /\ out = e /\ phase = "build"
Build == /\ phase = "build" /\ phase' = "call" /\ out' = out
         /\ LET P == TermsUpTo(Depth - 1) a == e IN
            e' \in {a} \cup {Or(a, b) : b \in P} \cup {S(h, a) : h \in Heads} \cup {T(<<a, b>>) : b \in P} \cup {L(<<a>>)}
SpecStaged == InitStaged /\ [][Build \/ Step]_vars

InvSem      == phase = "done" => SemPreserved(e, out)
InvNoBitOr  == phase = "done" => NoBitOrLeft(e, out)
InvFixpoint == phase = "done" => Fixpoint(out, Tr(out))
InvIdentity == phase = "done" => Identity(e, out)
InvForm     == phase = "done" => FormAsDocumented(e, out)
=============================================================================
