SPECIFICATION Spec
CONSTANTS
  Texts <- PoolTexts
  Json <- JsonTbl
  Literal <- LitTbl
  DecodeFirst = FALSE
  HandsOutCopy = TRUE
  ViewReads = "view"
  ReleasesView = FALSE
  MaxCalls = 3
INVARIANT CarrierFree
INVARIANT LoadAgrees
INVARIANT NeverRaises
INVARIANT InputIntact
CHECK_DEADLOCK FALSE
