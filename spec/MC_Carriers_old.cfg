SPECIFICATION Spec
CONSTANTS
  Texts <- PoolTexts
  Json <- JsonTbl
  Literal <- LitTbl
  DecodeFirst = FALSE
  HandsOutCopy = TRUE
  MaxCalls = 3
INVARIANT CarrierFree
INVARIANT LoadAgrees
INVARIANT NeverRaises
CHECK_DEADLOCK FALSE
