--------------------------- MODULE Dispatch_Trace ---------------------------
(* Code -> spec for C17: every call of a predicate / accessor on a catalogue   *)
(* object, with the primitive facts about that object taken from the runtime.  *)
EXTENDS Dispatch, Json, IOUtils

Log == ndJsonDeserialize(IOEnv.TRACE_FILE)
VARIABLE l

AllSame(s) == \A i \in 1..Len(s) : s[i] = s[1]

Clause(e) ==
  CASE e.ev = "pred" -> Verdict(e.p, e.f, e.ans, e.again)
    [] e.ev = "accessor" ->
         (IF e.got = "raised" THEN "Accessor.raised"
          ELSE IF e.got # e.expect THEN "Accessor.agreesWithTyping"
          ELSE IF e.again # e.got THEN "Accessor.stable" ELSE "")
    \* spellings of one type get one answer -- wherever the predicate is asserted at all (Def # "?") for every spelling
    [] e.ev = "spelling" -> (IF (\E i \in 1..Len(e.fs) : Def(e.p, e.fs[i]) = "?") \/ AllSame(e.answers) THEN "" ELSE "SpellingFree")
    [] e.ev = "dispatch" -> ""            \* implementation-shaped: judged by Drift below
    [] e.ev = "instantiable" -> (IF e.isclass /\ e.instantiable /\ e.rightkind THEN "" ELSE "OriginOfCollectionIsInstantiable")
    [] OTHER -> "UNKNOWN-EVENT"

\* the routine classes the real factories chose for a catalogue object vs the first matching rows of the model
Drift(e) ==
  IF e.ev # "dispatch" THEN ""
  ELSE IF HandlerU(e.f) # "?" /\ ~(\E i \in 1..Len(e.us) : e.us[i] = HandlerU(e.f)) THEN "unmarshal: model " \o HandlerU(e.f) \o ", code " \o e.us[1]
  ELSE IF HandlerM(e.f) # "?" /\ ~(\E i \in 1..Len(e.ms) : e.ms[i] = HandlerM(e.f)) THEN "marshal: model " \o HandlerM(e.f) \o ", code " \o e.ms[1]
  ELSE IF ~HandlersPaired(e.f) THEN "tables not paired: " \o HandlerU(e.f) \o " / " \o HandlerM(e.f)
  ELSE ""

TraceInit == l = 1
TraceNext == /\ l <= Len(Log) /\ l' = l + 1
             /\ LET c == Clause(Log[l]) IN IF c = "" THEN TRUE ELSE PrintT(ToJson([rej |-> l, clause |-> c]))
             /\ LET d == Drift(Log[l]) IN IF d = "" THEN TRUE ELSE PrintT(ToJson([drift |-> l, what |-> d]))
TraceSpec == TraceInit /\ [][TraceNext]_l
Consumed == PrintT(ToJson([consumed |-> TLCGet("stats").diameter - 1]))
=============================================================================
