SPECIFICATION Spec
CONSTANTS
  NClasses = 2
  MaxFields = 2
  Kinds = {"opt", "list", "dict", "tupv", "direct"}
  Emit = FALSE
  Structural = "defer_self"
INVARIANT Acyclic
INVARIANT MembersFirst
INVARIANT CyclicImpliesRevisit
INVARIANT DeferredDenotesExactly
INVARIANT RootPresent
PROPERTY Terminates
CHECK_DEADLOCK FALSE
