SPECIFICATION TraceSpec
CONSTANTS
  MaxParams = 1
  MaxExtraPos = 0
  Extras = {}
  Matrix = "code"
  ElseKey = FALSE
  NameKeys = "named"
  Unannotated = TRUE
  Emit = FALSE
POSTCONDITION Consumed
CHECK_DEADLOCK FALSE
