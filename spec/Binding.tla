------------------------------ MODULE Binding ------------------------------
(***************************************************************************)
(* typelib.binding: bind()/wrap()  (src/typelib/binding.py)                *)
(*                                                                         *)
(* Reference layer: Python's own argument binding (what                    *)
(* inspect.Signature.bind does), as BindRef(sig, call): which parameter    *)
(* every positional / keyword argument binds to, or TypeError.  The        *)
(* property: each argument is converted by the unmarshaller of exactly     *)
(* that parameter (raw when the parameter is unannotated).                 *)
(*                                                                         *)
(* Implementation-shaped layer: _get_binding (five flags, max_pos ->       *)
(* startpos, per-name and per-index routine table), the 32-row             *)
(* _BINDING_CLS_MATRIX and the 17 binder bodies, transcribed.              *)
(***************************************************************************)
EXTENDS Naturals, Sequences, FiniteSets, TLC, Json

CONSTANTS MaxParams,     \* longest signature
          MaxExtraPos,   \* surplus positional arguments tried
          Extras,        \* surplus keyword names tried, e.g. {"x1", "x2"}
          Matrix,        \* "code": the table as in binding.py;  "pinned": the table of the pinned snapshot
          ElseKey,       \* TRUE: the `else k` arms of the pinned snapshot (returns the key, not the value)
          NameKeys,      \* "named": only pos-or-keyword / keyword-only parameters are registered by name;
                         \* "all": every parameter name is a key of the routine table (pinned snapshot)
          Unannotated,   \* TRUE: also explore signatures with unannotated parameters
          Emit

Kinds == {"po", "pk", "va", "ko", "vk"}
Param == [kind : Kinds, dflt : BOOLEAN, ann : IF Unannotated THEN BOOLEAN ELSE {TRUE}]
KRank(k) == CASE k = "po" -> 1 [] k = "pk" -> 2 [] k = "va" -> 3 [] k = "ko" -> 4 [] k = "vk" -> 5

Name(i) == "p" \o ToString(i)

\* legal Python signatures
LegalSig(s) ==
  /\ \A i \in 1..(Len(s) - 1) : KRank(s[i].kind) <= KRank(s[i + 1].kind)
  /\ Cardinality({i \in 1..Len(s) : s[i].kind = "va"}) <= 1
  /\ Cardinality({i \in 1..Len(s) : s[i].kind = "vk"}) <= 1
  /\ \A i \in 1..Len(s) : s[i].kind \in {"va", "vk"} => ~s[i].dflt
  \* no non-default positional parameter after a default one
  /\ \A i, j \in 1..Len(s) : (i < j /\ s[i].kind \in {"po", "pk"} /\ s[j].kind \in {"po", "pk"} /\ s[i].dflt)
                               => s[j].dflt
  /\ (~Unannotated => \A i \in 1..Len(s) : s[i].ann)

Sigs == {s \in UNION {[1..n -> Param] : n \in 0..MaxParams} : LegalSig(s)}

NP(s)  == Cardinality({i \in 1..Len(s) : s[i].kind \in {"po", "pk"}})   \* positional parameters come first
NPO(s) == Cardinality({i \in 1..Len(s) : s[i].kind = "po"})
Idx(s, k) == IF \E i \in 1..Len(s) : s[i].kind = k THEN CHOOSE i \in 1..Len(s) : s[i].kind = k ELSE 0
Has(s, k) == \E i \in 1..Len(s) : s[i].kind = k
Named(s) == {i \in 1..Len(s) : s[i].kind \in {"po", "pk", "ko"}}

\* a call: number of positional arguments and the set of keyword names
\* keyword names tried: every parameter's own name (also *args / **kwargs / positional-only names, which
\* Python hands to **kwargs when there is one) and the surplus names
Calls(s) == [npos : 0..(NP(s) + MaxExtraPos), kw : SUBSET ({Name(i) : i \in 1..Len(s)} \cup Extras)]

ParamOfName(s, n) == IF \E i \in 1..Len(s) : Name(i) = n THEN CHOOSE i \in 1..Len(s) : Name(i) = n ELSE 0

(************************* reference layer *********************************)
\* target parameter of positional argument j (1-based); 0 = TypeError
PosTarget(s, j) == IF j <= NP(s) THEN j ELSE Idx(s, "va")

\* target parameter of keyword n given npos positionals; 0 = TypeError
KwTarget(s, npos, n) ==
  LET i == ParamOfName(s, n) IN
  IF i = 0 THEN Idx(s, "vk")                                   \* unknown name -> **kwargs
  ELSE IF s[i].kind \in {"po", "va", "vk"} THEN Idx(s, "vk")    \* such names are free for **kwargs
  ELSE IF s[i].kind = "pk" /\ i <= npos THEN 0                 \* multiple values for argument
  ELSE i

Filled(s, c, i) ==
  \/ s[i].kind \in {"va", "vk"}
  \/ s[i].dflt
  \/ (s[i].kind \in {"po", "pk"} /\ i <= c.npos)
  \/ (s[i].kind \in {"pk", "ko"} /\ Name(i) \in c.kw)

Accepts(s, c) ==
  /\ \A j \in 1..c.npos : PosTarget(s, j) # 0
  /\ \A n \in c.kw : KwTarget(s, c.npos, n) # 0
  /\ \A i \in 1..Len(s) : Filled(s, c, i)

\* what the argument bound to parameter i must have been converted by
Conv(s, i) == IF s[i].ann THEN Name(i) ELSE "raw"

RefPos(s, c) == [j \in 1..c.npos |-> Conv(s, PosTarget(s, j))]
RefKw(s, c)  == [n \in c.kw |-> Conv(s, KwTarget(s, c.npos, n))]

(******************** implementation-shaped layer **************************)
Flags(s) == <<Has(s, "po"), Has(s, "ko"), Has(s, "va"), Has(s, "vk"), Has(s, "pk")>>

\* _get_binding: max_pos is the (0-based) index of the last positional-only parameter, overwritten by
\* (index of *args) - 1 when *args exists; startpos = max_pos + 1, or None (here: -1)
StartPos(s) ==
  IF Has(s, "va") THEN Idx(s, "va") - 1            \* = 0-based index of *args = number of params before it
  ELSE IF Has(s, "po") THEN NPO(s)
  ELSE 0                                            \* None in the code, see NoStart
NoStart(s) == ~Has(s, "va") /\ ~Has(s, "po")

Binders == {"AnyParamKind", "PosArgsKwargs", "PosKwdKwargs", "PosKwdArgs", "PosKwargs", "PosKwd", "PosArgs",
            "Pos", "KwdArgsKwargs", "KwdArgs", "KwdKwargs", "Kwd", "ArgsKwargs", "Kwargs", "Args", "PosOrKwd"}

PosMode(b) == CASE b \in {"AnyParamKind", "PosArgsKwargs", "PosKwdArgs", "PosArgs"} -> "slice"
                [] b \in {"PosKwdKwargs", "PosKwargs", "PosKwd", "Pos", "PosOrKwd"} -> "all"
                [] b \in {"KwdArgsKwargs", "KwdArgs", "ArgsKwargs", "Args"} -> "varpos"
                [] OTHER -> "raw"
KwMode(b) == CASE b \in {"AnyParamKind", "PosKwdKwargs", "KwdArgsKwargs", "KwdKwargs"} -> "get_varkwd"
               [] b \in {"PosArgsKwargs", "PosKwargs", "ArgsKwargs", "Kwargs"} -> "varkwd"
               [] b \in {"PosKwdArgs"} -> "in_else_v"
               [] b \in {"PosKwd", "KwdArgs", "Kwd", "PosOrKwd"} -> (IF ElseKey THEN "in_else_k" ELSE "in_else_v")
               [] OTHER -> "raw"

\* _BINDING_CLS_MATRIX, keyed <<has_pos_only, has_kwd_only, has_args, has_kwargs, has_pos_or_kwd>>
T == TRUE
F == FALSE
PinnedMatrix(f) ==
  CASE f = <<F,F,F,F,F>> -> "PosOrKwd"      [] f = <<F,F,F,F,T>> -> "PosOrKwd"
    [] f = <<F,F,F,T,F>> -> "Kwargs"        [] f = <<F,F,F,T,T>> -> "PosKwdKwargs"
    [] f = <<F,F,T,F,F>> -> "Args"          [] f = <<F,F,T,F,T>> -> "PosArgs"
    [] f = <<F,F,T,T,F>> -> "ArgsKwargs"    [] f = <<F,F,T,T,T>> -> "ArgsKwargs"
    [] f = <<F,T,F,F,F>> -> "Kwd"           [] f = <<F,T,F,F,T>> -> "PosOrKwd"
    [] f = <<F,T,F,T,F>> -> "KwdKwargs"     [] f = <<F,T,F,T,T>> -> "PosKwdKwargs"
    [] f = <<F,T,T,F,F>> -> "KwdArgs"       [] f = <<F,T,T,F,T>> -> "PosOrKwd"
    [] f = <<F,T,T,T,F>> -> "KwdArgsKwargs" [] f = <<F,T,T,T,T>> -> "KwdArgsKwargs"
    [] f = <<T,F,F,F,F>> -> "Pos"           [] f = <<T,F,F,F,T>> -> "PosOrKwd"
    [] f = <<T,F,F,T,F>> -> "PosKwargs"     [] f = <<T,F,F,T,T>> -> "PosKwargs"
    [] f = <<T,F,T,F,F>> -> "PosArgs"       [] f = <<T,F,T,F,T>> -> "PosArgs"
    [] f = <<T,F,T,T,F>> -> "PosArgsKwargs" [] f = <<T,F,T,T,T>> -> "AnyParamKind"
    [] f = <<T,T,F,F,F>> -> "PosKwd"        [] f = <<T,T,F,F,T>> -> "PosKwdKwargs"
    [] f = <<T,T,F,T,F>> -> "PosArgsKwargs" [] f = <<T,T,F,T,T>> -> "PosKwdKwargs"
    [] f = <<T,T,T,F,F>> -> "PosKwdArgs"    [] f = <<T,T,T,F,T>> -> "PosKwdArgs"
    [] f = <<T,T,T,T,F>> -> "AnyParamKind"  [] f = <<T,T,T,T,T>> -> "AnyParamKind"

\* the table after the fix: commit (rows whose binder mis-routes some argument re-pointed)
CodeMatrix(f) ==
  CASE f = <<F,F,T,F,T>> -> "PosKwdArgs"
    [] f = <<F,F,T,T,T>> -> "AnyParamKind"
    [] f = <<F,T,T,F,T>> -> "PosKwdArgs"
    [] f = <<F,T,T,T,T>> -> "AnyParamKind"
    [] f = <<T,F,F,T,T>> -> "PosKwdKwargs"
    [] f = <<T,F,T,F,T>> -> "PosKwdArgs"
    [] f = <<T,T,F,T,F>> -> "PosKwdKwargs"
    [] OTHER -> PinnedMatrix(f)

BinderOf(s) == IF Matrix = "pinned" THEN PinnedMatrix(Flags(s)) ELSE CodeMatrix(Flags(s))

\* binding[i] for a 0-based integer key: every parameter has one (incl. *args, keyword-only, **kwargs)
ByIndex(s, i0) == IF i0 + 1 <= Len(s) THEN Conv(s, i0 + 1) ELSE "raw"
VarPos(s) == IF Has(s, "va") THEN Conv(s, Idx(s, "va")) ELSE "TypeError"     \* None(v) -> TypeError
VarKwd(s) == IF Has(s, "vk") THEN Conv(s, Idx(s, "vk")) ELSE "TypeError"
\* binding[k] for a string key
NameKeyed(s, i) == NameKeys = "all" \/ s[i].kind \in {"pk", "ko"}
ByName(s, n) == IF \E i \in 1..Len(s) : Name(i) = n /\ NameKeyed(s, i)
                THEN Conv(s, CHOOSE i \in 1..Len(s) : Name(i) = n) ELSE "absent"

ImplPosWith(b, s, c) ==
  LET m == PosMode(b) IN
  IF m = "raw" THEN [j \in 1..c.npos |-> "raw"]
  ELSE IF m = "all" THEN [j \in 1..c.npos |-> ByIndex(s, j - 1)]
  ELSE IF m = "varpos" THEN [j \in 1..c.npos |-> VarPos(s)]
  ELSE IF NoStart(s) THEN     \* args[:None] is everything and args[None:] is everything again
       [j \in 1..(2 * c.npos) |-> IF j <= c.npos THEN ByIndex(s, j - 1) ELSE VarPos(s)]
  ELSE [j \in 1..c.npos |-> IF j <= StartPos(s) THEN ByIndex(s, j - 1) ELSE VarPos(s)]

ImplKwWith(b, s, c) ==
  LET m == KwMode(b) IN
  [n \in c.kw |->
     CASE m = "raw" -> "raw"
       [] m = "varkwd" -> VarKwd(s)
       [] m = "get_varkwd" -> (IF ByName(s, n) # "absent" THEN ByName(s, n) ELSE VarKwd(s))
       [] m = "in_else_v" -> (IF ByName(s, n) # "absent" THEN ByName(s, n) ELSE "raw")
       [] m = "in_else_k" -> (IF ByName(s, n) # "absent" THEN ByName(s, n) ELSE "key")]

Correct(b, s, c) ==      \* binder b does what the reference demands on this accepted call
  /\ ImplPosWith(b, s, c) = RefPos(s, c)
  /\ ImplKwWith(b, s, c) = RefKw(s, c)

\* On a rejected call the converted call must still be rejected by Python: conversion may fail with
\* TypeError (calling None) or pass arguments through; what must not happen is a *changed arity*.
RejectStillRejects(b, s, c) == Len(ImplPosWith(b, s, c)) = c.npos \/ \E j \in DOMAIN ImplPosWith(b, s, c) : ImplPosWith(b, s, c)[j] = "TypeError"

(**************************** state machine ********************************)
VARIABLES sig, call, phase
vars == <<sig, call, phase>>

Init == /\ sig \in Sigs
        /\ call \in Calls(sig)
        /\ phase = "call"
Step == /\ phase = "call" /\ phase' = "done" /\ UNCHANGED <<sig, call>>
        /\ (Emit => PrintT(ToJson([sig |-> sig, npos |-> call.npos, kw |-> call.kw,
                                   accepts |-> Accepts(sig, call),
                                   pos |-> IF Accepts(sig, call) THEN RefPos(sig, call) ELSE <<>>,
                                   kwconv |-> IF Accepts(sig, call) THEN RefKw(sig, call)
                                              ELSE [n \in {} |-> ""]])))
Next == Step
Spec == Init /\ [][Next]_vars

Refines == Accepts(sig, call) => Correct(BinderOf(sig), sig, call)
Rejects == ~Accepts(sig, call) => RejectStillRejects(BinderOf(sig), sig, call)

\* Table synthesis: for each flag row, the binders that are correct on every signature/call of that row.
GoodBinders(f) == {b \in Binders : \A s \in Sigs : Flags(s) = f => \A c \in Calls(s) : Accepts(s, c) => Correct(b, s, c)}
=============================================================================
