---------------------------- MODULE Member_Trace ----------------------------
(* C05 / C07 / C11: relations between outcomes of *separately obtained* routines. *)
(*   "memberwise"  the composite's outcome equals the composite rebuilt from the  *)
(*                 outcomes of the member routines (or both sides raise)          *)
(*   "pair"        two annotations that must behave identically (W(T) vs T) give  *)
(*                 the same outcome on the same input                             *)
(*   "level"       one nesting level of a recursive value: converted, conforming  *)
(*   "levels"      every nesting level of one recursive value, as one flag each   *)
EXTENDS Terms, IOUtils

Log == ndJsonDeserialize(IOEnv.TRACE_FILE)
VARIABLE l

AnyRaised(parts) == \E i \in 1..Len(parts) : parts[i].k = "raised"
\* the exception of the first member that fails
FirstRaised(parts) == parts[CHOOSE i \in 1..Len(parts) : parts[i].k = "raised" /\ \A j \in 1..(i - 1) : parts[j].k # "raised"].e

Clause(e) ==
  CASE e.ev = "memberwise" ->
         (IF AnyRaised(e.parts) THEN (IF e.whole.k # "raised" THEN "Memberwise.exceptionParity"
                                      \* exactly one member was made to fail: the composite fails the way that member does
                                      ELSE IF e.classpar /\ e.whole.e # FirstRaised(e.parts) THEN "Memberwise.exceptionClassDiffers"
                                      ELSE "")
          ELSE IF e.rebuilt.k = "raised" THEN ""                 \* the members convert but cannot form the composite
          ELSE IF e.whole.k = "raised" THEN "Memberwise.compositeRaised"
          ELSE IF e.whole.r # e.rebuilt.r THEN "Memberwise.differs" ELSE "")
    [] e.ev = "pair" ->
         (IF e.a.k # e.b.k THEN "Transparent.oneRaises"
          ELSE IF e.a.k = "ok" /\ e.a.r # e.b.r THEN "Transparent.differs" ELSE "")
    [] e.ev = "level" ->
         (IF e.out.k = "raised" THEN "Recursive.raised." \o e.out.e
          ELSE IF ~e.converted THEN "Recursive.levelPassedThroughRaw"
          ELSE IF e.check = "conf" /\ Conf(e.T, e.out.r, Defs, "Conforms", FALSE) # "" THEN "Recursive.levelNotConforming"
          ELSE "")
    \* all nesting levels of one recursive value in one event: flags[i] = level i-1 has the right class and converted scalars
    [] e.ev = "levels" ->
         (IF \E i \in 1..Len(e.flags) : ~e.flags[i] THEN "Recursive.levelPassedThroughRaw"
          ELSE IF ~e.reach THEN "Recursive.levelPassedThroughRaw" ELSE "")
    [] e.ev = "build" ->
         (IF e.out.k = "raised" THEN "Build.raised." \o e.out.e
          ELSE IF ~e.passthrough THEN "Build.unresolvablePositionNotPassThrough"
          ELSE IF ~e.repeatable THEN "Build.notRepeatable" ELSE "")
    [] OTHER -> "UNKNOWN-EVENT"

TraceInit == l = 1 /\ T = NoneT /\ phase = "-"
TraceNext ==
  /\ l <= Len(Log) /\ l' = l + 1
  /\ LET c == Clause(Log[l]) IN IF c = "" THEN TRUE ELSE PrintT(ToJson([rej |-> l, clause |-> c]))
  /\ UNCHANGED vars
TraceSpec == TraceInit /\ [][TraceNext]_<<vars, l>>
Consumed == PrintT(ToJson([consumed |-> TLCGet("stats").diameter - 1]))
=============================================================================
