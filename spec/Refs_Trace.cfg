SPECIFICATION TraceSpec
POSTCONDITION Consumed
CHECK_DEADLOCK FALSE
