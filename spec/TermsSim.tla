------------------------------ MODULE TermsSim ------------------------------
(***************************************************************************)
(* Deep type terms by simulation.  Terms.tla enumerates the universe to    *)
(* two constructor layers exhaustively; beyond that the set of terms is    *)
(* too large to enumerate, so this module is a *type-builder* state        *)
(* machine meant for `tlc -simulate`: a behaviour starts at a leaf and     *)
(* every step wraps the current term in one more constructor, with         *)
(* siblings drawn from the representative sets.  Every state from depth    *)
(* MinDepth on is emitted; TLC checks well-formedness and Strip on every   *)
(* state it visits.                                                        *)
(***************************************************************************)
EXTENDS Terms

CONSTANTS MinDepth, MaxDepth
VARIABLES cur, dep
svars == <<cur, dep, T, phase>>

Sib == {P("int"), P("str"), P("date"), P("Decimal"), E("Tag"), Cls("D1"), Cls("N2"), Cls("TD1"), Cls("R1")}
KeySib == {P("str"), P("int"), E("Tag"), P("Decimal")}

\* one more constructor around t
Layer(t) ==
       {Coll(cs[1], cs[2], t) : cs \in {x \in CollSpell : SetLike(x[1]) => Hashable(t)}}
  \cup {Map(sp, ka, t) : sp \in MapSpell, ka \in KeySib}
  \cup (IF Hashable(t) THEN {Map("builtin", t, s) : s \in Sib} ELSE {})
  \cup {Tup(<<t>>)} \cup {Tup(<<t, s>>) : s \in Sib} \cup {Tup(<<s, t>>) : s \in Sib} \cup {Tup(<<t, t>>)}
  \cup (IF t # NoneT THEN {Opt(t), Un("pipe", <<t, NoneT>>), Un("Union", <<NoneT, t>>)} ELSE {})
  \cup {Wrap(w, t) : w \in {"newtype", "alias", "salias"}}

SimInit == /\ cur \in Leaves \cup Rep1 /\ dep = 0 /\ T = NoneT /\ phase = "-"
SimStep == /\ dep < MaxDepth
           /\ cur' \in Layer(cur)
           /\ dep' = dep + 1
           /\ UNCHANGED <<T, phase>>
           /\ (Emit /\ dep' >= MinDepth => PrintT(ToJson(cur')))
SimSpec == SimInit /\ [][SimStep]_svars

SimWellFormed == WellFormed(cur)
SimStrip == Strip(Strip(cur)) = Strip(cur)
=============================================================================
