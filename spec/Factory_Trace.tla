---------------------------- MODULE Factory_Trace ----------------------------
(* Code -> spec for the routine factory: the routine tables the real               *)
(* unmarshaller()/marshaller() built for TLC-emitted (topology, root) cases,       *)
(* projected back onto the abstract types of module Factory.  Each event holds     *)
(*   topo, root       the case                                                     *)
(*   raised           exception class of the build, or ""                          *)
(*   rootr            [kind, t] of the routine returned for the root               *)
(*   comps            every real composite routine reachable from it:              *)
(*                    [u |-> its type, rs |-> <<[kind, t] of each member slot>>]   *)
(* and is judged with Factory's own operators (MemberSeq, Denotes, Unwrap).        *)
EXTENDS Factory, IOUtils

Log == ndJsonDeserialize(IOEnv.TRACE_FILE)
VARIABLE l

SlotsOK(tp, c) ==
  LET ms == MemberSeq(tp, c.u) IN
  /\ Len(c.rs) = Len(ms)
  /\ \A j \in 1..Len(ms) : Denotes(c.rs[j]) = Unwrap(ms[j][1])

Clause(e) ==
  IF e.raised # "" THEN "Routing.buildRaised." \o e.raised
  ELSE IF e.rootr.kind # "real" \/ e.rootr.t # Unwrap(e.root) THEN "Routing.RootIsReal"
  ELSE IF \E i \in 1..Len(e.comps) : \E j \in 1..Len(e.comps[i].rs) : e.comps[i].rs[j].kind = "noop" THEN "Routing.memberIsNoOp"
  ELSE IF \E i \in 1..Len(e.comps) : ~SlotsOK(e.topo, e.comps[i]) THEN "Routing.memberRoutineDenotesOtherType"
  ELSE ""

TraceInit == /\ l = 1 /\ topo = <<>> /\ root = S /\ phase = "-" /\ queue = <<>> /\ visited = {} /\ nodes = {} /\ edges = {}
             /\ acyc = TRUE /\ bound = {} /\ ctx = <<>> /\ slots = <<>> /\ err = ""
TraceNext == /\ l <= Len(Log) /\ l' = l + 1
             /\ LET c == Clause(Log[l]) IN IF c = "" THEN TRUE ELSE PrintT(ToJson([rej |-> l, clause |-> c]))
             /\ UNCHANGED vars
TraceSpec == TraceInit /\ [][TraceNext]_<<vars, l>>
Consumed == PrintT(ToJson([consumed |-> TLCGet("stats").diameter - 1]))
=============================================================================
