SPECIFICATION Spec
CONSTANTS
  Texts <- PoolTexts
  Json <- JsonTbl
  Literal <- LitTbl
  DecodeFirst = TRUE
  HandsOutCopy = TRUE
  ViewReads = "exporter"
  ReleasesView = FALSE
  MaxCalls = 3
INVARIANT CarrierFree
INVARIANT LoadAgrees
INVARIANT NeverRaises
INVARIANT InputIntact
CHECK_DEADLOCK FALSE
