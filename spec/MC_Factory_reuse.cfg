SPECIFICATION Spec
CONSTANTS
  NClasses = 2
  MaxFields = 1
  Kinds = {"opt"}
  Direct = TRUE
  Named = TRUE
  AliasCut = "defer_self"
  GenericCut = "defer_self"
  ProxyReuse = "always"
  GetUsesMissing = TRUE
  Emit = FALSE
INVARIANT BuildNeverFails
INVARIANT RoutingCorrect
INVARIANT RootIsReal
INVARIANT ProxiesDenoteTypes
CHECK_DEADLOCK FALSE
