SPECIFICATION Spec
CONSTANTS
  FixWhen = "none_declared"
INVARIANT UserHookKept
INVARIANT FrozenRestorable
INVARIANT UnfrozenUntouched
CHECK_DEADLOCK FALSE
