------------------------------- MODULE Caches -------------------------------
(***************************************************************************)
(* Call-history independence (C12).  typelib memoises on several layers    *)
(* (routine factories, static_order, inspection predicates, the            *)
(* strload / dateparse / isoformat value caches, the reference-module      *)
(* guess).  Abstractly an argument is [eq, d]: `eq` is the equality/hash   *)
(* class a memo key sees, `d` the detail that distinguishes objects of one *)
(* class observably (member order of a union, UTC offset of an instant,    *)
(* the module a bare name is used from).  A memo layer is characterised by *)
(*   KeyIgnoresDetail  the key is eq although the result depends on d      *)
(*   SharesResult      a hit returns the stored mutable object itself      *)
(* and a routine by                                                         *)
(*   ReturnsInput      an identity fast path hands the caller's own object  *)
(*                     back as the result ("already an instance")           *)
(* Reference: every call's outcome is that of the same call in a cold      *)
(* process: computed from its own [eq, d], untouched by earlier mutation.  *)
(***************************************************************************)
EXTENDS Naturals, Sequences, FiniteSets, TLC, Json

CONSTANTS MaxOps, KeyIgnoresDetail, SharesResult, ReturnsInput, Emit

Objects == [eq : {1, 2}, d : {1, 2}]
KeyOf(o) == IF KeyIgnoresDetail THEN <<o.eq, 0>> ELSE <<o.eq, o.d>>

VARIABLES memo,       \* key |-> detail of the argument the entry was computed from
          dirty,      \* keys whose stored result object has been mutated by a caller
          hist,       \* sequence of operations with their outcomes
          moved       \* calls whose returned result changed when the caller changed the input it had passed
vars == <<memo, dirty, hist, moved>>

Init == memo = <<>> /\ dirty = {} /\ hist = <<>> /\ moved = {}

Call(o) ==
  /\ Len(hist) < MaxOps
  /\ LET k == KeyOf(o)
         hit == k \in DOMAIN memo
         from == IF hit THEN memo[k] ELSE o.d
         soiled == hit /\ k \in dirty IN
     /\ hist' = Append(hist, [op |-> "call", eq |-> o.eq, d |-> o.d, from |-> from, soiled |-> soiled, target |-> 0])
     /\ memo' = IF hit THEN memo ELSE [x \in DOMAIN memo \cup {k} |-> IF x = k THEN o.d ELSE memo[x]]
     /\ dirty' = dirty /\ moved' = moved

\* the caller deep-mutates what belongs to the i-th operation (a call): first the input it had passed, then the result
Mutate(i) ==
  /\ Len(hist) < MaxOps
  /\ i \in 1..Len(hist) /\ hist[i].op = "call"
  /\ hist' = Append(hist, [op |-> "mutate", eq |-> hist[i].eq, d |-> hist[i].d, from |-> 0, soiled |-> FALSE, target |-> i])
  /\ dirty' = IF SharesResult THEN dirty \cup {KeyOf([eq |-> hist[i].eq, d |-> hist[i].d])} ELSE dirty
  /\ memo' = memo
  /\ moved' = IF ReturnsInput THEN moved \cup {i} ELSE moved      \* the result was the input: it moved with it

Clear ==
  /\ Len(hist) < MaxOps /\ Len(hist) > 0
  /\ hist' = Append(hist, [op |-> "clear", eq |-> 0, d |-> 0, from |-> 0, soiled |-> FALSE, target |-> 0])
  /\ memo' = <<>> /\ dirty' = {} /\ moved' = moved

Next == (\E o \in Objects : Call(o)) \/ (\E i \in 1..MaxOps : Mutate(i)) \/ Clear
Spec == Init /\ [][Next]_vars

HistoryFree == \A i \in 1..Len(hist) : hist[i].op = "call" => (hist[i].from = hist[i].d /\ ~hist[i].soiled)
\* what a call returned is the caller's: changing the input afterwards does not reach it
ResultsIndependentOfInputs == moved = {}
EmitHist == (Emit /\ Len(hist) = MaxOps) => PrintT(ToJson([hist |-> hist]))
=============================================================================
