--------------------------- MODULE Scalars_Trace ---------------------------
(* Code -> spec for C04.  "parse": one unmarshal of a scalar target from its   *)
(* canonical text in some carrier, from a number, or from a temporal value;    *)
(* Law(K, ik) names the clause and `expect` is the standard library's answer.  *)
(* "emit": what marshalling wrote for a value, Python's own printer, and what  *)
(* an independent reader (datetime.fromisoformat, Decimal, ...; for durations  *)
(* the token algebra of module Scalars) makes of it.                           *)
EXTENDS Scalars, Json, IOUtils

Log == ndJsonDeserialize(IOEnv.TRACE_FILE)
VARIABLE l

Clause(e) ==
  CASE e.ev = "parse" ->
         (IF Law(e.K, e.ik) = "unasserted" THEN ""
          ELSE IF e.out.k = "raised" THEN Law(e.K, e.ik) \o ".raised"
          ELSE IF e.out.r # e.expect THEN Law(e.K, e.ik) ELSE "")
    [] e.ev = "emit" ->
         (IF e.out.k = "raised" THEN "Emit.raised"
          ELSE IF e.dur THEN
               (IF ~e.tokenised THEN "Emit.duration.unreadable"
                ELSE IF Meaning(e.tok) # <<e.triple[1], e.triple[2], e.triple[3]>> THEN "Emit.duration.meansSomethingElse"
                ELSE IF ~WellFormed(e.tok) THEN "Emit.duration.notWellFormed" ELSE "")
          ELSE IF e.out.r # e.pytext THEN "Emit.notPythonsCanonicalText"
          ELSE IF e.back # e.v THEN "Emit.independentReaderDisagrees" ELSE "")
    [] OTHER -> "UNKNOWN-EVENT"

TraceInit == l = 1 /\ t = <<0, 0, 0>> /\ phase = "-"
TraceNext == /\ l <= Len(Log) /\ l' = l + 1 /\ UNCHANGED vars
             /\ LET c == Clause(Log[l]) IN IF c = "" THEN TRUE ELSE PrintT(ToJson([rej |-> l, clause |-> c]))
TraceSpec == TraceInit /\ [][TraceNext]_<<vars, l>>
Consumed == PrintT(ToJson([consumed |-> TLCGet("stats").diameter - 1]))
=============================================================================
