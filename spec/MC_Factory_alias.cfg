SPECIFICATION Spec
CONSTANTS
  NClasses = 2
  MaxFields = 1
  Kinds = {"opt"}
  Direct = TRUE
  Named = TRUE
  AliasCut = "bare_ref"
  GenericCut = "defer_self"
  ProxyReuse = "never_for_real"
  GetUsesMissing = TRUE
  Emit = FALSE
INVARIANT BuildNeverFails
INVARIANT RoutingCorrect
INVARIANT RootIsReal
INVARIANT ProxiesDenoteTypes
CHECK_DEADLOCK FALSE
