SPECIFICATION Spec
CONSTANTS
  MaxOps = 4
  KeyIgnoresDetail = TRUE
  SharesResult = FALSE
  Emit = FALSE
INVARIANT HistoryFree
CHECK_DEADLOCK FALSE
