SPECIFICATION Spec
CONSTANTS
  MaxOps = 4
  KeyIgnoresDetail = TRUE
  SharesResult = FALSE
  ReturnsInput = FALSE
  Emit = FALSE
INVARIANT HistoryFree
INVARIANT ResultsIndependentOfInputs
CHECK_DEADLOCK FALSE
