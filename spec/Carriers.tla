------------------------------ MODULE Carriers ------------------------------
(***************************************************************************)
(* Text carriers: serdes.decode / load / strload (src/typelib/serdes.py).  *)
(*                                                                         *)
(* A text input is [c, s]: carrier c in {str, bytes, bytearray, mvb, mvba} *)
(* (memoryview of bytes / of bytearray) holding text s from a pool.  What  *)
(* a text means is given by fact tables: Json[s] (the JSON value, or       *)
(* "notjson"), Literal[s] (whether ast.literal_eval accepts it).           *)
(*                                                                         *)
(* Reference: LoadRef.  Implementation-shaped layer: load() = strload()    *)
(* behind an LRU cache keyed on the argument (which must be hashable),     *)
(* JSON first, then literal_eval, else the decoded text; a caller may       *)
(* modify a container it was given (MutateLast).  TLC explores every       *)
(* history over the pool and checks CarrierFree / LoadAgrees.              *)
(***************************************************************************)
EXTENDS Naturals, Sequences, FiniteSets, TLC

CONSTANTS Texts,          \* pool of texts
          Json,           \* [Texts -> value or "notjson"]
          Literal,        \* [Texts -> BOOLEAN]
          DecodeFirst,    \* TRUE: load() decodes every carrier to str before the memoised strload (current code)
          HandsOutCopy,   \* TRUE: a decoded container is returned as a deep copy of the memo's object (current code);
                          \* FALSE: the memo's own object is returned (pinned snapshot; "shallow" is the same one level down)
          MaxCalls

Carriers == {"str", "bytes", "bytearray", "mvb", "mvba"}
Hashable(c) == c \in {"str", "bytes", "mvb"}       \* bytearray and a view of one are unhashable
\* cache key equality: bytes and a read-only memoryview of the same bytes compare and hash equal
KeyOf(c, s) == IF DecodeFirst THEN <<"str", s>> ELSE IF c = "mvb" THEN <<"bytes", s>> ELSE <<c, s>>

\* what the statement prescribes for load(x): JSON value if JSON; the text itself (as str) if neither JSON nor a
\* Python literal; unconstrained for Python-literal text (pinned only through carrier-freedom)
LoadRefOK(s, out) ==
  IF Json[s] # "notjson" THEN out = [k |-> "val", v |-> Json[s]]
  ELSE IF ~Literal[s] THEN out = [k |-> "text", v |-> s]
  ELSE out.k \in {"val", "text", "lit"}

VARIABLES cache, soiled, calls, last     \* soiled: memo keys whose stored container a caller has modified
vars == <<cache, soiled, calls, last>>
Container(s) == (Json[s] # "notjson" /\ Json[s] \notin {"int1", "none"}) \/ (Json[s] = "notjson" /\ Literal[s] /\ s # "1")

Compute(s) == IF Json[s] # "notjson" THEN [k |-> "val", v |-> Json[s]]
              ELSE IF Literal[s] THEN [k |-> "lit", v |-> s]
              ELSE [k |-> "text", v |-> s]

Init == cache = {} /\ soiled = {} /\ calls = 0 /\ last = [c |-> "-", s |-> "-", out |-> [k |-> "none", v |-> "-"]]

Load(c, s) ==
  /\ calls < MaxCalls
  /\ calls' = calls + 1
  /\ IF ~DecodeFirst /\ ~Hashable(c)
     THEN /\ last' = [c |-> c, s |-> s, out |-> [k |-> "raised", v |-> "TypeError"]]   \* lru_cache hashes its argument
          /\ cache' = cache
     ELSE /\ last' = [c |-> c, s |-> s,                                \* hit or miss: the same value, unless soiled
                      out |-> IF KeyOf(c, s) \in soiled THEN [k |-> "soiled", v |-> s] ELSE Compute(s)]
          /\ cache' = cache \cup {KeyOf(c, s)}
  /\ soiled' = soiled
\* the caller modifies the container it was last given (appends to a list, sets a key, also below the top level)
MutateLast ==
  /\ calls < MaxCalls /\ last.c # "-" /\ last.out.k \in {"val", "lit"} /\ Container(last.s)
  /\ calls' = calls + 1
  /\ soiled' = IF HandsOutCopy THEN soiled ELSE soiled \cup {KeyOf(last.c, last.s)}
  /\ UNCHANGED <<cache, last>>
Next == (\E c \in Carriers, s \in Texts : Load(c, s)) \/ MutateLast
Spec == Init /\ [][Next]_vars

\* every carrier of the same text gives the same outcome, whatever was loaded before
CarrierFree == last.c # "-" => last.out = Compute(last.s)
LoadAgrees == last.c # "-" => (last.out.k = "raised" \/ LoadRefOK(last.s, last.out))
NeverRaises == last.out.k # "raised"
=============================================================================
