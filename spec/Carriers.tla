------------------------------ MODULE Carriers ------------------------------
(***************************************************************************)
(* Text carriers: serdes.decode / load / strload (src/typelib/serdes.py).  *)
(*                                                                         *)
(* A text input is [c, s]: carrier c in {str, bytes, bytearray, mvb, mvba} *)
(* (memoryview of bytes / of bytearray) holding text s from a pool.  What  *)
(* a text means is given by fact tables: Json[s] (the JSON value, or       *)
(* "notjson"), Literal[s] (whether ast.literal_eval accepts it).           *)
(*                                                                         *)
(* Reference: LoadRef.  Implementation-shaped layer: load() = strload()    *)
(* behind an LRU cache keyed on the argument (which must be hashable),     *)
(* JSON first, then literal_eval, else the decoded text.  TLC explores     *)
(* every call history over the pool and checks CarrierFree / LoadAgrees.   *)
(***************************************************************************)
EXTENDS Naturals, Sequences, FiniteSets, TLC

CONSTANTS Texts,          \* pool of texts
          Json,           \* [Texts -> value or "notjson"]
          Literal,        \* [Texts -> BOOLEAN]
          DecodeFirst,    \* TRUE: load() decodes every carrier to str before the memoised strload (current code)
          MaxCalls

Carriers == {"str", "bytes", "bytearray", "mvb", "mvba"}
Hashable(c) == c \in {"str", "bytes", "mvb"}       \* bytearray and a view of one are unhashable
\* cache key equality: bytes and a read-only memoryview of the same bytes compare and hash equal
KeyOf(c, s) == IF DecodeFirst THEN <<"str", s>> ELSE IF c = "mvb" THEN <<"bytes", s>> ELSE <<c, s>>

\* what the statement prescribes for load(x): JSON value if JSON; the text itself (as str) if neither JSON nor a
\* Python literal; unconstrained for Python-literal text (pinned only through carrier-freedom)
LoadRefOK(s, out) ==
  IF Json[s] # "notjson" THEN out = [k |-> "val", v |-> Json[s]]
  ELSE IF ~Literal[s] THEN out = [k |-> "text", v |-> s]
  ELSE out.k \in {"val", "text", "lit"}

VARIABLES cache, calls, last
vars == <<cache, calls, last>>

Compute(s) == IF Json[s] # "notjson" THEN [k |-> "val", v |-> Json[s]]
              ELSE IF Literal[s] THEN [k |-> "lit", v |-> s]
              ELSE [k |-> "text", v |-> s]

Init == cache = {} /\ calls = 0 /\ last = [c |-> "-", s |-> "-", out |-> [k |-> "none", v |-> "-"]]

Load(c, s) ==
  /\ calls < MaxCalls
  /\ calls' = calls + 1
  /\ IF ~DecodeFirst /\ ~Hashable(c)
     THEN /\ last' = [c |-> c, s |-> s, out |-> [k |-> "raised", v |-> "TypeError"]]   \* lru_cache hashes its argument
          /\ cache' = cache
     ELSE /\ last' = [c |-> c, s |-> s, out |-> Compute(s)]          \* hit or miss: same value
          /\ cache' = cache \cup {KeyOf(c, s)}
Next == \E c \in Carriers, s \in Texts : Load(c, s)
Spec == Init /\ [][Next]_vars

\* every carrier of the same text gives the same outcome, whatever was loaded before
CarrierFree == last.c # "-" => last.out = Compute(last.s)
LoadAgrees == last.c # "-" => (last.out.k = "raised" \/ LoadRefOK(last.s, last.out))
NeverRaises == last.out.k # "raised"
=============================================================================
