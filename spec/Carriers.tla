------------------------------ MODULE Carriers ------------------------------
(***************************************************************************)
(* Text carriers: serdes.decode / load / strload (src/typelib/serdes.py).  *)
(*                                                                         *)
(* A text input is [c, s]: carrier c in {str, bytes, bytearray, mvb, mvba, *)
(* mvwin, mvwinba, mvstride} (memoryview of bytes / of a bytearray / of a   *)
(* window into a larger bytes or bytearray buffer / a strided view)         *)
(* holding text s from a pool.  What                                        *)
(* a text means is given by fact tables: Json[s] (the JSON value, or       *)
(* "notjson"), Literal[s] (whether ast.literal_eval accepts it).           *)
(*                                                                         *)
(* Reference: LoadRef.  Implementation-shaped layer: load() = strload()    *)
(* behind an LRU cache keyed on the argument (which must be hashable),     *)
(* JSON first, then literal_eval, else the decoded text; a caller may       *)
(* modify a container it was given (MutateLast).  TLC explores every       *)
(* history over the pool and checks CarrierFree / LoadAgrees.              *)
(***************************************************************************)
EXTENDS Naturals, Sequences, FiniteSets, TLC

CONSTANTS Texts,          \* pool of texts
          Json,           \* [Texts -> value or "notjson"]
          Literal,        \* [Texts -> BOOLEAN]
          DecodeFirst,    \* TRUE: load() decodes every carrier to str before the memoised strload (current code)
          HandsOutCopy,   \* TRUE: a decoded container is returned as a deep copy of the memo's object (current code);
                          \* FALSE: the memo's own object is returned (pinned snapshot; "shallow" is the same one level down)
          ViewReads,      \* "view": a memoryview is read through the view itself (current code); "exporter": the object
                          \* the view was taken from is read instead (right only when the view spans all of it)
          ReleasesView,   \* TRUE: decoding a memoryview releases it (the caller's object is dead afterwards)
          MaxCalls

Carriers == {"str", "bytes", "bytearray", "mvb", "mvba", "mvwin", "mvwinba", "mvstride"}
Views == {"mvb", "mvba", "mvwin", "mvwinba", "mvstride"}
Windowed(c) == c \in {"mvwin", "mvwinba", "mvstride"}   \* the exporting object holds more than the text
Hashable(c) == c \in {"str", "bytes", "mvb", "mvwin", "mvstride"}   \* bytearray and a view of one are unhashable
\* cache key equality: bytes and a read-only memoryview of the same bytes compare and hash equal
KeyOf(c, s) == IF DecodeFirst THEN <<"str", s>> ELSE IF c \in {"mvb", "mvwin", "mvstride"} THEN <<"bytes", s>> ELSE <<c, s>>

\* what the statement prescribes for load(x): JSON value if JSON; the text itself (as str) if neither JSON nor a
\* Python literal; unconstrained for Python-literal text (pinned only through carrier-freedom)
LoadRefOK(s, out) ==
  IF Json[s] # "notjson" THEN out = [k |-> "val", v |-> Json[s]]
  ELSE IF ~Literal[s] THEN out = [k |-> "text", v |-> s]
  ELSE out.k \in {"val", "text", "lit"}

VARIABLES cache, soiled, calls, last     \* soiled: memo keys whose stored container a caller has modified
vars == <<cache, soiled, calls, last>>
Container(s) == (Json[s] # "notjson" /\ Json[s] \notin {"int1", "none"}) \/ (Json[s] = "notjson" /\ Literal[s] /\ s # "1")

Compute(s) == IF Json[s] # "notjson" THEN [k |-> "val", v |-> Json[s]]
              ELSE IF Literal[s] THEN [k |-> "lit", v |-> s]
              ELSE [k |-> "text", v |-> s]

\* what the implementation gets to see of input [c, s]
Seen(c, s) == IF ViewReads = "exporter" /\ Windowed(c) THEN [k |-> "foreign", v |-> s] ELSE Compute(s)

Init == cache = {} /\ soiled = {} /\ calls = 0 /\ last = [c |-> "-", s |-> "-", out |-> [k |-> "none", v |-> "-"], alive |-> TRUE]

Load(c, s) ==
  /\ calls < MaxCalls
  /\ calls' = calls + 1
  /\ IF ~DecodeFirst /\ ~Hashable(c)
     THEN /\ last' = [c |-> c, s |-> s, out |-> [k |-> "raised", v |-> "TypeError"], alive |-> TRUE]   \* lru_cache hashes its argument
          /\ cache' = cache
     ELSE /\ last' = [c |-> c, s |-> s,                                \* hit or miss: the same value, unless soiled
                      out |-> IF KeyOf(c, s) \in soiled THEN [k |-> "soiled", v |-> s] ELSE Seen(c, s),
                      alive |-> ~(ReleasesView /\ c \in Views)]
          /\ cache' = cache \cup {KeyOf(c, s)}
  /\ soiled' = soiled
\* the caller modifies the container it was last given (appends to a list, sets a key, also below the top level)
MutateLast ==
  /\ calls < MaxCalls /\ last.c # "-" /\ last.out.k \in {"val", "lit"} /\ Container(last.s)
  /\ calls' = calls + 1
  /\ soiled' = IF HandsOutCopy THEN soiled ELSE soiled \cup {KeyOf(last.c, last.s)}
  /\ UNCHANGED <<cache, last>>
\* the caller hands over the very same object again (a union trying its next member, a retry)
Again ==
  /\ calls < MaxCalls /\ last.c # "-"
  /\ calls' = calls + 1
  /\ IF last.alive THEN Load(last.c, last.s)!3
     ELSE last' = [last EXCEPT !.out = [k |-> "raised", v |-> "ValueError"]] /\ cache' = cache
  /\ soiled' = soiled
Next == (\E c \in Carriers, s \in Texts : Load(c, s)) \/ MutateLast \/ Again
Spec == Init /\ [][Next]_vars

\* every carrier of the same text gives the same outcome, whatever was loaded before
CarrierFree == last.c # "-" => last.out = Compute(last.s)
LoadAgrees == last.c # "-" => (last.out.k = "raised" \/ LoadRefOK(last.s, last.out))
NeverRaises == last.out.k # "raised"
\* the caller's object survives the call
InputIntact == last.alive
=============================================================================
