SPECIFICATION TraceSpec
CONSTANTS
  MaxHist = 8
  Names = {"A", "B"}
  MaxFields = 2
  ReleaseAlways = TRUE
  SeesImplicitSlots = TRUE
  Emit = FALSE
POSTCONDITION Consumed
CHECK_DEADLOCK FALSE
