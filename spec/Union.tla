------------------------------- MODULE Union -------------------------------
(***************************************************************************)
(* Union (un)marshalling: unmarshals/routines.py UnionUnmarshaller,        *)
(* marshals/routines.py UnionMarshaller.                                   *)
(*                                                                         *)
(* Reference layer: UnionRef -- a relation over the *outcomes of the       *)
(* member routines*: None is honoured wherever it is declared, otherwise   *)
(* the first acceptor in declared order wins, and only if every member     *)
(* rejects -- with whatever exception -- the union raises ValueError.      *)
(*                                                                         *)
(* Implementation-shaped layer: the constructor's reordering of the member *)
(* stack for optional unions and the ordered try/suppress loop, one action *)
(* per step.  TLC checks, for every member tuple of length 2..MaxLen,      *)
(* every placement of None and every assignment of member outcomes, that   *)
(* the loop's result equals UnionRef.                                      *)
(*                                                                         *)
(* Rotation / Suppressed are constants so that the behaviour of older      *)
(* revisions ("last" rotation, four suppressed classes) can be model       *)
(* checked too: TLC then produces the counterexamples (MC_Union_old.cfg).  *)
(***************************************************************************)
EXTENDS Naturals, Sequences, FiniteSets, TLC

CONSTANTS MaxLen,       \* longest member tuple
          ExcKinds,     \* exception classes a member may reject with
          Suppressed,   \* set of classes the loop swallows; containing "ALL" = every Exception
          Rotation,     \* "none_first" | "last_first" | "none"
          NoneAcceptsAll \* TRUE: marshalling NoneType with the accept-everything no-op routine (older revisions)

\* A member is [none |-> BOOLEAN, out |-> "ok" | exception class]; for the None member the
\* outcome is a function of the input (accepts exactly None) and `out` is ignored.
Outcomes == {"ok"} \cup ExcKinds
Member == [none : BOOLEAN, out : Outcomes]

\* The None member's routine accepts exactly None, in both directions (NoneTypeUnmarshaller,
\* NoneTypeMarshaller).  With NoneAcceptsAll the marshal side is the no-op routine of older revisions,
\* which accepted every value.
MemberOut(m, xn, d) ==
  IF m.none /\ ~(d = "marshal" /\ NoneAcceptsAll) THEN (IF xn THEN "ok" ELSE "ValueError") ELSE m.out
Outs(s, xn, d) == [j \in 1..Len(s) |-> MemberOut(s[j], xn, d)]

HasNone(ms) == \E i \in 1..Len(ms) : ms[i].none

(************************* reference layer *********************************)
\* result: [k |-> "ok", by |-> index of the member whose result is returned (0 = the None itself)]
\*      or [k |-> "raised", e |-> "ValueError"]
\* outs: the member routines' outcomes on the input, in declared order ("ok" or an exception class)
UnionRefO(hasNone, outs, xn) ==
  IF xn /\ hasNone THEN [k |-> "ok", by |-> 0]
  ELSE LET acc == {i \in 1..Len(outs) : outs[i] = "ok"} IN
       IF acc = {} THEN [k |-> "raised", e |-> "ValueError"]
       ELSE [k |-> "ok", by |-> CHOOSE i \in acc : \A j \in acc : i <= j]
UnionRef(s, xn, d) == UnionRefO(HasNone(s), Outs(s, xn, d), xn)

(******************** implementation-shaped layer **************************)
VARIABLES ms, xnone, dir,   \* the case: members, whether the input is None, direction
          stack,            \* sequence of member indices in the order the loop tries them
          pc, i, result
vars == <<ms, xnone, dir, stack, pc, i, result>>

IsSuppressed(e) == "ALL" \in Suppressed \/ e \in Suppressed

NoneIdx(s) == {j \in 1..Len(s) : s[j].none}

Rotate(s) ==   \* indices 1..n reordered by the constructor
  LET n == Len(s)
      id == [j \in 1..n |-> j] IN
  IF ~HasNone(s) \/ Rotation = "none" THEN id
  ELSE IF Rotation = "last_first" THEN <<n>> \o [j \in 1..(n-1) |-> j]
  ELSE LET nn == CHOOSE j \in NoneIdx(s) : \A q \in NoneIdx(s) : j <= q
           rest == SelectSeq(id, LAMBDA j : ~s[j].none) IN
       <<nn>> \o rest

Tuples == UNION {[1..n -> Member] : n \in 2..MaxLen}

Init ==
  /\ ms \in Tuples
  /\ Cardinality(NoneIdx(ms)) <= 1          \* typing.Union de-duplicates members
  /\ xnone \in BOOLEAN
  /\ dir \in {"unmarshal", "marshal"}
  /\ stack = <<>> /\ pc = "build" /\ i = 0 /\ result = [k |-> "none"]

Build ==   \* __init__: args, optional rotation (unmarshal only), routine list
  /\ pc = "build"
  /\ stack' = IF dir = "unmarshal" THEN Rotate(ms) ELSE [j \in 1..Len(ms) |-> j]
  /\ pc' = "call" /\ i' = 1
  /\ UNCHANGED <<ms, xnone, dir, result>>

Shortcut ==   \* UnionMarshaller: `if self.nullable and val is None: return val`
  /\ pc = "call" /\ i = 1 /\ dir = "marshal" /\ xnone /\ HasNone(ms)
  /\ result' = [k |-> "ok", by |-> 0] /\ pc' = "done"
  /\ UNCHANGED <<ms, xnone, dir, stack, i>>

Try ==
  /\ pc = "call" /\ i <= Len(stack)
  /\ ~(dir = "marshal" /\ xnone /\ HasNone(ms))
  /\ LET o == MemberOut(ms[stack[i]], xnone, dir) IN
     IF o = "ok" THEN
        \* the None member given None returns None itself: reported as by=0
        /\ result' = [k |-> "ok", by |-> IF ms[stack[i]].none /\ xnone THEN 0 ELSE stack[i]]
        /\ pc' = "done" /\ i' = i
     ELSE IF IsSuppressed(o) THEN
        /\ i' = i + 1 /\ pc' = pc /\ result' = result
     ELSE
        /\ result' = [k |-> "raised", e |-> o] /\ pc' = "done" /\ i' = i
  /\ UNCHANGED <<ms, xnone, dir, stack>>

Exhausted ==
  /\ pc = "call" /\ i > Len(stack)
  /\ result' = [k |-> "raised", e |-> "ValueError"] /\ pc' = "done"
  /\ UNCHANGED <<ms, xnone, dir, stack, i>>

Next == Build \/ Shortcut \/ Try \/ Exhausted
Spec == Init /\ [][Next]_vars /\ WF_vars(Next)

(***************************** properties **********************************)
Refines == pc = "done" => result = UnionRef(ms, xnone, dir)
Terminates == <>(pc = "done")
NoneHonoured == (pc = "done" /\ xnone /\ HasNone(ms)) => result = [k |-> "ok", by |-> 0]
OnlyValueError == (pc = "done" /\ result.k = "raised") => result.e = "ValueError"
=============================================================================
