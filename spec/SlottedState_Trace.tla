------------------------- MODULE SlottedState_Trace -------------------------
(* Code -> spec: one event per decorated class: [frozen, hooks, effective] with `effective` read from the   *)
(* slotted class's own dict ("user": the function the body declared, "fix": another function, "default":    *)
(* none).  Judged by SlottedState!Effective under the current-code constant.                                *)
EXTENDS Naturals, Sequences, TLC, Json, IOUtils
FixWhen == "none_declared"
VARIABLES c, phase
S == INSTANCE SlottedState
Log == ndJsonDeserialize(IOEnv.TRACE_FILE)
VARIABLE l
Clause(e) ==
  LET cl == [frozen |-> e.frozen, hooks |-> e.hooks] IN
  IF e.effective = S!Effective(cl) THEN ""
  ELSE IF S!DeclaresSet(cl) THEN "Slotted.userSetstateReplaced"
  ELSE IF e.frozen /\ e.hooks = "none" THEN "Slotted.frozenNotRestorable"
  ELSE "Slotted.setstateNotAsSpecified"
TraceInit == l = 1 /\ c = [frozen |-> FALSE, hooks |-> "none"] /\ phase = "declared"
TraceNext == /\ l <= Len(Log) /\ l' = l + 1 /\ UNCHANGED <<c, phase>>
             /\ LET k == Clause(Log[l]) IN IF k = "" THEN TRUE ELSE PrintT(ToJson([rej |-> l, clause |-> k]))
TraceSpec == TraceInit /\ [][TraceNext]_<<l, c, phase>>
Consumed == PrintT(ToJson([consumed |-> TLCGet("stats").diameter - 1]))
=============================================================================
