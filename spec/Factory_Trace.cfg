SPECIFICATION TraceSpec
CONSTANTS
  NClasses = 2
  MaxFields = 2
  Kinds = {"opt", "list", "dict", "tupv"}
  Direct = TRUE
  Named = TRUE
  AliasCut = "defer_self"
  GenericCut = "defer_self"
  ProxyReuse = "never_for_real"
  GetUsesMissing = TRUE
  Emit = FALSE
POSTCONDITION Consumed
CHECK_DEADLOCK FALSE
