SPECIFICATION SpecStaged
CONSTANTS
  Depth = 2
  LeafSet = "full"
  Emit = FALSE
INVARIANT InvSem
INVARIANT InvNoBitOr
INVARIANT InvFixpoint
INVARIANT InvIdentity
INVARIANT InvForm
CHECK_DEADLOCK FALSE
