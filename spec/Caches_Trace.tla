---------------------------- MODULE Caches_Trace ----------------------------
(* Code -> spec for C12: every call of a warm history, with the outcome of the  *)
(* same call made alone in a cold process (a fork of a zygote that imported the *)
(* library and called nothing).                                                 *)
EXTENDS Naturals, Sequences, FiniteSets, TLC, Json, IOUtils

Log == ndJsonDeserialize(IOEnv.TRACE_FILE)
VARIABLE l

Clause(e) ==
  IF e.warm # e.cold THEN "HistoryFree.differsFromColdRun"
  ELSE IF ~e.input_intact THEN "InputMutated"
  ELSE IF ~e.earlier_intact THEN "EarlierResultChangedByLaterCall"
  ELSE IF ~e.results_disjoint THEN "ResultSharesContainerWithEarlierResult"
  ELSE IF ~e.result_independent_of_input THEN "ResultChangedByMutatingItsInput"
  ELSE ""

TraceInit == l = 1
TraceNext == /\ l <= Len(Log) /\ l' = l + 1
             /\ LET c == Clause(Log[l]) IN IF c = "" THEN TRUE ELSE PrintT(ToJson([rej |-> l, clause |-> c]))
TraceSpec == TraceInit /\ [][TraceNext]_l
Consumed == PrintT(ToJson([consumed |-> TLCGet("stats").diameter - 1]))
=============================================================================
