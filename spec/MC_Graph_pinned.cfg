SPECIFICATION Spec
CONSTANTS
  NClasses = 2
  MaxFields = 2
  Kinds = {"opt", "list", "dict", "tupv", "direct"}
  Emit = FALSE
  Structural = "drop_params"
INVARIANT Acyclic
INVARIANT MembersFirst
INVARIANT CyclicImpliesRevisit
INVARIANT DeferredDenotesExactly
INVARIANT RootPresent
PROPERTY Terminates
CHECK_DEADLOCK FALSE
