-------------------------------- MODULE Refs --------------------------------
(***************************************************************************)
(* typelib.py.refs: what a *string reference* denotes.                      *)
(*                                                                         *)
(*   forwardref(text, module=explicit)  ->  ForwardRef(name', module=M)     *)
(*   evaluate(ref)                      ->  eval(name', namespace of M)     *)
(*                                                                         *)
(* Reference layer: Python's own reading of a string annotation -- the     *)
(* text is an expression for the namespace it was written in: the module   *)
(* given explicitly (annotations, string-valued aliases), else the module  *)
(* of the code that hands the text to the library (`RefDenotes`).          *)
(*                                                                         *)
(* Implementation-shaped layer, transcribed from _resolve_module_name and  *)
(* forwardref: explicit module; "easy path" (the text is qualified by a    *)
(* module); the stack walk for the first user frame whose globals bind the *)
(* name; the caller's module; then `name.replace(M + ".", "")` and         *)
(* evaluation in sys.modules[M] (an unknown M has an empty namespace).     *)
(*                                                                         *)
(* Property: wherever Python's reading succeeds, the library denotes the   *)
(* same object (`Transparent`).  The library may resolve *more* (a         *)
(* qualified name whose module the caller never imported).                 *)
(*                                                                         *)
(* Texts are structured (a dotted path, `list[path]`, `typing.Optional[    *)
(* path]`, `path | path`); what the code sees of them as a string -- the   *)
(* part before the first dot, whether the rest is a dotted name -- is      *)
(* derived here (`Root`, `RestDotted`), the harness renders them.          *)
(***************************************************************************)
EXTENDS Naturals, Sequences, FiniteSets, TLC, Json

CONSTANTS EasyPath,    \* "dotted_loaded": qualified = loaded module + dotted name (current code)
                       \* "first_dot":     everything before the first dot is the module (pinned snapshot)
          Probe,       \* "root": the stack walk looks for the first name of the text (current code); "text": for the whole text
          Emit

(***************************** the world ***********************************)
\* modules known to the interpreter (sys.modules); "ghost" is a name no module has
Loaded == {"m1", "m2", "lib", "typing"}
\* what a top-level name of a module is bound to: an object tag, or [mod |-> m] for an imported module
Obj(t) == [k |-> "obj", t |-> t]
ModRef(m) == [k |-> "mod", m |-> m]
NS == [m1 |-> [A |-> Obj("m1.A"), B |-> Obj("m1.B"), Box |-> Obj("m1.Box"), lib |-> ModRef("lib"), typing |-> ModRef("typing")],
       m2 |-> [A |-> Obj("m2.A"), C |-> Obj("m2.C"), m1 |-> ModRef("m1"), typing |-> ModRef("typing")],
       lib |-> [Dec |-> Obj("lib.Dec")],
       typing |-> [Optional |-> Obj("typing.Optional")]]
\* attributes of objects: m1.Box is a class with a class declared in its body
Attr == [x \in {"m1.Box"} |-> [Inner |-> Obj("m1.Box.Inner")]]
Builtins == {"list"}
UserMods == {"m1", "m2"}

(****************************** texts **************************************)
Paths == { <<"A">>, <<"B">>, <<"C">>, <<"Zed">>, <<"m1", "A">>, <<"m2", "A">>, <<"m1", "B">>, <<"Box", "Inner">>, <<"m1", "Box", "Inner">>,
           <<"lib", "Dec">>, <<"ghost", "A">> }
Name(p)    == [k |-> "name", p |-> p, q |-> <<>>]
Sub(p)     == [k |-> "sub",  p |-> p, q |-> <<>>]          \* list[p]
QSub(p)    == [k |-> "qsub", p |-> p, q |-> <<>>]          \* typing.Optional[p]
Or(p, q)   == [k |-> "or",   p |-> p, q |-> q]             \* p | q
Texts == {Name(p) : p \in Paths} \cup {Sub(p) : p \in Paths} \cup {QSub(p) : p \in Paths}
         \cup {Or(p, q) : p \in {<<"A">>, <<"m1", "A">>, <<"lib", "Dec">>}, q \in {<<"B">>, <<"m1", "B">>, <<"lib", "Dec">>}}

\* the string as the code sees it
HasDot(t) == CASE t.k = "name" -> Len(t.p) > 1 [] t.k = "sub" -> Len(t.p) > 1 [] t.k = "qsub" -> TRUE
               [] OTHER -> Len(t.p) > 1 \/ Len(t.q) > 1
\* the part before the first dot, when it is an identifier ("" otherwise: `list[lib`, `A | m1`)
Root(t) == CASE t.k = "name" -> t.p[1]
             [] t.k = "sub"  -> ""
             [] t.k = "qsub" -> "typing"
             [] OTHER -> IF Len(t.p) > 1 THEN t.p[1] ELSE ""
\* is what follows the first dot a dotted name (identifiers only)?
RestDotted(t) == t.k = "name" /\ Len(t.p) > 1

(************************** evaluation *************************************)
Err == [k |-> "err", t |-> "NameError"]
IsErr(x) == x.k = "err"
\* namespace of a module as the evaluator gets it: an unknown module has none
Lookup(m, n) == IF m \in DOMAIN NS /\ n \in DOMAIN NS[m] THEN NS[m][n]
                ELSE IF n \in Builtins THEN Obj(n) ELSE Err
AttrOf(x, a) == IF x.k = "mod" THEN (IF a \in DOMAIN NS[x.m] THEN NS[x.m][a] ELSE Err)
                ELSE IF x.k = "obj" /\ x.t \in DOMAIN Attr /\ a \in DOMAIN Attr[x.t] THEN Attr[x.t][a] ELSE Err
RECURSIVE Walk(_, _, _)
Walk(x, p, i) == IF IsErr(x) \/ i > Len(p) THEN x ELSE Walk(AttrOf(x, p[i]), p, i + 1)
EvalPath(p, m) == IF p = <<>> THEN Err ELSE Walk(Lookup(m, p[1]), p, 2)
Tag(x) == IF x.k = "obj" THEN x.t ELSE "module:" \o x.m
EvalIn(t, m) ==
  CASE t.k = "name" -> (LET x == EvalPath(t.p, m) IN IF IsErr(x) THEN x ELSE Obj(Tag(x)))
    [] t.k = "sub"  -> (LET x == EvalPath(t.p, m) IN IF IsErr(x) THEN x ELSE Obj("list[" \o Tag(x) \o "]"))
    [] t.k = "qsub" -> (LET h == EvalPath(<<"typing", "Optional">>, m) x == EvalPath(t.p, m) IN
                        IF IsErr(h) THEN h ELSE IF IsErr(x) THEN x ELSE Obj("Optional[" \o Tag(x) \o "]"))
    [] OTHER -> (LET x == EvalPath(t.p, m) y == EvalPath(t.q, m) IN
                 IF IsErr(x) THEN x ELSE IF IsErr(y) THEN y
                 ELSE IF Tag(x) = Tag(y) THEN Obj(Tag(x))            \* X | X is X
                 ELSE Obj(Tag(x) \o " | " \o Tag(y)))

(************************* reference layer *********************************)
\* a call: the text, the explicit module ("-" = none), the user frames from the innermost (which hands the text over) outwards
Call == [t : Texts, explicit : {"-"} \cup UserMods, stack : {<<"m1">>, <<"m2">>, <<"m1", "m2">>, <<"m2", "m1">>}]
Written(c) == IF c.explicit # "-" THEN c.explicit ELSE c.stack[1]
RefDenotes(c) == EvalIn(c.t, Written(c))

(******************** implementation-shaped layer **************************)
\* first user frame, innermost first, whose globals bind n; "" if none
RECURSIVE FirstBinding(_, _, _)
FirstBinding(stack, n, i) ==
  IF i > Len(stack) THEN ""
  ELSE IF n # "" /\ n \in DOMAIN NS[stack[i]] THEN stack[i] ELSE FirstBinding(stack, n, i + 1)
ImplModule(c) ==
  IF c.explicit # "-" THEN c.explicit
  ELSE LET t == c.t
           easy == IF EasyPath = "first_dot" THEN HasDot(t)
                   ELSE HasDot(t) /\ Root(t) \in Loaded /\ RestDotted(t)
       IN IF easy THEN (IF Root(t) # "" THEN Root(t) ELSE "?")        \* "?": a string that is no module at all (`list[lib`)
          ELSE LET probe == IF Probe = "root" THEN Root(t) ELSE (IF t.k = "name" /\ Len(t.p) = 1 THEN t.p[1] ELSE "")
                   f == FirstBinding(c.stack, probe, 1)
               IN IF f # "" THEN f ELSE c.stack[1]           \* frames.extract finds nothing either: the caller's module
\* name.replace(M + ".", ""): a leading M is dropped from every path
StripPath(p, m) == IF Len(p) > 1 /\ p[1] = m THEN SubSeq(p, 2, Len(p)) ELSE p
Strip(t, m) == [t EXCEPT !.p = StripPath(t.p, m), !.q = StripPath(t.q, m)]
ImplDenotes(c) ==
  LET m == ImplModule(c) IN
  IF m = "?" THEN [k |-> "err", t |-> "SyntaxError"]
  ELSE IF c.t.k = "qsub" /\ m = "typing" THEN
       \* `typing.Optional[p]` evaluated inside typing: `Optional[p]` with p looked up in typing's own namespace
       (LET x == EvalPath(c.t.p, "typing") IN IF IsErr(x) THEN x ELSE Obj("Optional[" \o Tag(x) \o "]"))
  ELSE EvalIn(Strip(c.t, m), m)

VARIABLES c, phase
vars == <<c, phase>>
Init == c \in Call /\ phase = "call"
Step == phase = "call" /\ phase' = "done" /\ c' = c
        /\ (Emit => PrintT(ToJson([call |-> c, ref |-> RefDenotes(c), impl |-> ImplDenotes(c)])))
Spec == Init /\ [][Step]_vars

\* wherever Python's own reading of the text succeeds, the library denotes the same object
Transparent == ~IsErr(RefDenotes(c)) => ImplDenotes(c) = RefDenotes(c)
=============================================================================
