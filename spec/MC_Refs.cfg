SPECIFICATION Spec
CONSTANTS
  EasyPath = "dotted_loaded"
  Probe = "root"
  Emit = FALSE
INVARIANT Transparent
CHECK_DEADLOCK FALSE
