----------------------------- MODULE Codec_Trace -----------------------------
(* Code -> spec for C02: one event per (T, v, configuration) of a history that     *)
(* requests the same types under several encoder configurations without clearing   *)
(* any cache.  enc / dec hold the outcomes of the three entry points (Codec method, *)
(* top-level function, explicit composition).                                       *)
EXTENDS Naturals, Sequences, FiniteSets, TLC, Json, IOUtils

Log == ndJsonDeserialize(IOEnv.TRACE_FILE)
VARIABLE l

Clause(e) ==
  IF e.enc[1].k = "raised" THEN "Codec.encodeRaised"
  ELSE IF e.enc[2] # e.enc[1] THEN "Agree.encode.topLevel"
  ELSE IF ~e.byteslike /\ e.enc[3] # e.enc[1] THEN "Agree.encode.composition"
  ELSE IF ~e.byteslike /\ e.expect # e.enc[1] THEN "NoCrossTalk.encoderNotTheConfiguredOne"
  ELSE IF e.byteslike /\ ~e.verbatim THEN "Verbatim"
  ELSE IF e.jsoncfg /\ ~e.byteslike /\ e.parsed # e.marshalled THEN "JsonValid.parsesToMarshal"
  ELSE IF e.dec[1].k = "raised" THEN "Codec.decodeRaised"
  ELSE IF e.dec[2] # e.dec[1] THEN "Agree.decode.topLevel"
  ELSE IF ~e.byteslike /\ e.dec[3] # e.dec[1] THEN "Agree.decode.composition"
  ELSE IF e.dec[1].r # e.v THEN "RoundTrip"
  ELSE ""

TraceInit == l = 1
TraceNext == /\ l <= Len(Log) /\ l' = l + 1
             /\ LET c == Clause(Log[l]) IN IF c = "" THEN TRUE ELSE PrintT(ToJson([rej |-> l, clause |-> c]))
TraceSpec == TraceInit /\ [][TraceNext]_l
Consumed == PrintT(ToJson([consumed |-> TLCGet("stats").diameter - 1]))
=============================================================================
