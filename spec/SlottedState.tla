---------------------------- MODULE SlottedState ----------------------------
(***************************************************************************)
(* typelib.py.classes.slotted: which __setstate__ an instance of the        *)
(* slotted class is restored with (copy.copy / copy.deepcopy / pickle).     *)
(*                                                                         *)
(* A class is [frozen, hooks]: hooks says which of __getstate__ /           *)
(* __setstate__ the dataclass body declares itself.  A frozen class with    *)
(* __slots__ cannot be restored by the interpreter's default (it assigns    *)
(* the slots with setattr, which a frozen dataclass refuses), so slotted()  *)
(* installs its own __setstate__ -- but only where the class declares no    *)
(* state hook at all: a hook the class declares must stay the one in use.   *)
(*                                                                         *)
(* Implementation-shaped: Effective (what ends up in the class dict),       *)
(* parameterised by FixWhen.  Reference: UserHookKept, FrozenRestorable.    *)
(***************************************************************************)
EXTENDS Naturals, TLC

CONSTANTS FixWhen      \* "none_declared": the fix goes in only when neither hook is declared (current code)
                       \* "not_both_declared": ... unless both hooks are declared (overrides a lone user hook)

Hooks == {"none", "both", "get", "set"}
Class == [frozen : BOOLEAN, hooks : Hooks]

DeclaresSet(c) == c.hooks \in {"both", "set"}
DeclaresGet(c) == c.hooks \in {"both", "get"}
Installs(c) ==
  c.frozen /\ (IF FixWhen = "none_declared" THEN c.hooks = "none" ELSE c.hooks # "both")
\* the __setstate__ found in the slotted class's own dict
Effective(c) == IF Installs(c) THEN "fix" ELSE IF DeclaresSet(c) THEN "user" ELSE "default"

VARIABLES c, phase
vars == <<c, phase>>
Init == c \in Class /\ phase = "declared"
Decorate == phase = "declared" /\ phase' = "slotted" /\ c' = c
Next == Decorate
Spec == Init /\ [][Next]_vars

\* a hook the class declares is the one in use afterwards
UserHookKept == phase = "slotted" /\ DeclaresSet(c) => Effective(c) = "user"
\* a frozen class without hooks of its own can be restored (the default cannot do it)
FrozenRestorable == phase = "slotted" /\ c.frozen /\ c.hooks = "none" => Effective(c) = "fix"
\* an unfrozen class is left alone
UnfrozenUntouched == phase = "slotted" /\ ~c.frozen => Effective(c) # "fix"
=============================================================================
