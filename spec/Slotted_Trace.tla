---------------------------- MODULE Slotted_Trace ----------------------------
(* Code -> spec: recorded decoration histories of the real classes.slotted.    *)
(* Each event is one decoration with what was observed on the real classes:    *)
(* outcome, __slots__, instance dict / weakref support, len(_stack) afterwards *)
(* and the operations of the behavioural battery whose outcome differed        *)
(* between the slotted class and its plain dataclass twin.                     *)
EXTENDS Slotted, IOUtils

Log == ndJsonDeserialize(IOEnv.TRACE_FILE)
VARIABLE l

Observed(e) == [desc |-> e.desc, res |-> e.res, slots |-> {e.slots[i] : i \in 1..Len(e.slots)},
                hasdict |-> e.hasdict, hasweak |-> e.hasweak]

Clause(e, h2) ==
  IF e.res # "ok" THEN "NeverRaises"
  ELSE IF e.stack_after # 0 THEN "StackEmptyBetweenDecorations"
  ELSE IF ~SlotsOK(h2, Len(h2)) THEN "SlotFormula"
  ELSE IF e.hasdict # (e.desc.d \/ BaseHasDict(h2, e.desc)) THEN "InstanceDictOnlyIfRequestedOrInherited"
  ELSE IF e.mismatch # <<>> THEN "BehavesLikePlainDataclass"
  ELSE ""

TraceInit == l = 1 /\ hist = <<>> /\ stack = {}
TraceNext ==
  /\ l <= Len(Log)
  /\ l' = l + 1
  /\ LET e == Log[l]
         h == IF e.step = 1 THEN <<>> ELSE hist
         pred == Step(h, stack, e.desc)
         h2 == Append(h, Observed(e))
         c == Clause(e, h2) IN
     /\ hist' = h2
     /\ stack' = pred.stack
     /\ (IF c = "" THEN TRUE ELSE PrintT(ToJson([rej |-> l, clause |-> c, predicted |-> pred.rec.res])))
     /\ (IF pred.rec.res = e.res /\ (e.res # "ok" \/ pred.rec.slots = Observed(e).slots) THEN TRUE
         ELSE PrintT(ToJson([drift |-> l, model |-> pred.rec.slots])))
TraceSpec == TraceInit /\ [][TraceNext]_<<vars, l>>
Consumed == PrintT(ToJson([consumed |-> TLCGet("stats").diameter - 1]))
=============================================================================
