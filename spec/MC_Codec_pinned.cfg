SPECIFICATION Spec
CONSTANTS
  Cfgs = {"default", "stdjson", "tag"}
  MaxOps = 4
  CacheKey = "full"
  TopLevelBytes = "coded"
  IdentityWhen = "bytes"
INVARIANT Agree
INVARIANT NoCrossTalk
INVARIANT Verbatim
CHECK_DEADLOCK FALSE
