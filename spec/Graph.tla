------------------------------- MODULE Graph -------------------------------
(***************************************************************************)
(* typelib.graph.get_type_graph / static_order (src/typelib/graph.py).     *)
(*                                                                         *)
(* Types are abstract: class "C<i>", structural type <<kind, target>> (a   *)
(* subscripted generic or union around a class: Optional[C], list[C],      *)
(* dict[str, C], tuple[C, ...]) and the scalar "S".  A class has up to     *)
(* MaxFields fields, each a scalar, a class, or a structural type.         *)
(*                                                                         *)
(* Implementation-shaped layer: the BFS with its `visited` set, the cut    *)
(* rule (a revisited named type becomes a deferred forward reference, a    *)
(* revisited structural type a deferred node carrying the type itself;     *)
(* deferral is part of node identity) and the predecessor relation handed  *)
(* to graphlib.  Reference layer: the invariants of the    *)
(* statement over the resulting node set / dependency relation, for every  *)
(* topological order graphlib may choose.                                  *)
(***************************************************************************)
EXTENDS Naturals, Sequences, SequencesExt, FiniteSets, TLC, Json

CONSTANTS NClasses, MaxFields, Kinds,     \* Kinds \subseteq {"opt", "list", "dict", "tupv", "direct"}
          Emit,                           \* print every (topology, root) with the model's node set
          Structural                      \* what happens to a revisited structural type:
                                          \*   "defer_self"  deferred node carrying the type itself (current code)
                                          \*   "drop_params" deferred forward reference built from the bare name (pinned snapshot)
                                          \*   "expand"      expanded again (an intermediate revision; TLC shows the CycleError)

Classes == 1..NClasses
Cls(i) == <<"cls", i>>
Gen(k, i) == <<k, i>>                     \* structural type of kind k around class i
Scalar == <<"S", 0>>
FieldTypes == {Scalar} \cup {Gen(k, i) : k \in Kinds \ {"direct"}, i \in Classes}
                       \cup (IF "direct" \in Kinds THEN {Cls(i) : i \in Classes} ELSE {})

\* a topology: the field types of every class, and the root annotation
Topology == [Classes -> UNION {[1..n -> FieldTypes] : n \in 0..MaxFields}]
Roots == {Cls(i) : i \in Classes} \cup {Gen(k, i) : k \in Kinds \ {"direct"}, i \in Classes}

IsNamed(t) == t[1] = "cls"
IsStructural(t) == t[1] \notin {"cls", "S"}
MemberSeq(tp, t) ==                       \* direct members in declaration order, with the field index as var
  IF IsNamed(t) THEN [j \in 1..Len(tp[t[2]]) |-> <<tp[t[2]][j], j>>]
  ELSE IF IsStructural(t) THEN << <<Cls(t[2]), 0>> >>
  ELSE <<>>
Members(tp, t) == {MemberSeq(tp, t)[j] : j \in 1..Len(MemberSeq(tp, t))}

\* a node: [t |-> type, var |-> field index or 0, def |-> deferred (cyclic) or not]
Node(t, v, d) == [t |-> t, var |-> v, def |-> d]

VARIABLES topo, root, queue, visited, nodes, edges, done
vars == <<topo, root, queue, visited, nodes, edges, done>>

Init == /\ topo \in Topology
        /\ root \in Roots
        /\ queue = <<Node(root, 0, FALSE)>>
        /\ visited = {root}
        /\ nodes = {Node(root, 0, FALSE)}
        /\ edges = {}
        /\ done = FALSE

\* children of the popped parent are processed in order, `visited` growing as they are seen
IsCut(vis, t) == t \in vis /\ (IsNamed(t) \/ (IsStructural(t) /\ Structural # "expand"))
RECURSIVE Walk(_, _, _)                   \* returns [kids |-> sequence of nodes, vis |-> visited afterwards]
Walk(ms, vis, acc) ==
  IF ms = <<>> THEN [kids |-> acc, vis |-> vis]
  ELSE LET m == Head(ms) t == m[1] IN
       IF IsCut(vis, t) THEN Walk(Tail(ms), vis, Append(acc, Node(t, m[2], TRUE)))
       ELSE Walk(Tail(ms), vis \cup {t}, Append(acc, Node(t, m[2], FALSE)))

Pop ==
  /\ ~done /\ queue # <<>>
  /\ LET parent == Head(queue)
         w == Walk(MemberSeq(topo, parent.t), visited, <<>>)
         kids == {w.kids[j] : j \in 1..Len(w.kids)}
         fresh == SelectSeq(w.kids, LAMBDA k : ~k.def /\ k \notin nodes)
     IN /\ nodes' = nodes \cup kids
        /\ edges' = edges \cup {<<parent, k>> : k \in kids}
        /\ visited' = w.vis
        \* (the code pushes every fresh child again; re-expanding an already expanded node adds nothing)
        /\ queue' = Tail(queue) \o fresh
        /\ UNCHANGED <<topo, root, done>>

Finish == /\ ~done /\ queue = <<>> /\ done' = TRUE /\ UNCHANGED <<topo, root, queue, visited, nodes, edges>>
          /\ (Emit => PrintT(ToJson([topo |-> topo, root |-> root, ndeferred |-> Cardinality({n \in nodes : n.def}),
                                     nnodes |-> Cardinality(nodes)])))
Next == Pop \/ Finish
Spec == Init /\ [][Next]_vars /\ WF_vars(Next)

(***************************** properties **********************************)
\* the dependency relation handed to graphlib must be acyclic, else static_order() raises CycleError
RECURSIVE ReachFrom(_, _, _)
ReachFrom(S, E, n) == IF n = 0 THEN S ELSE
   LET S2 == S \cup {e[2] : e \in {x \in E : x[1] \in S}} IN IF S2 = S THEN S ELSE ReachFrom(S2, E, n - 1)
Acyclic == done => \A n \in nodes : n \notin ReachFrom({e[2] : e \in {x \in edges : x[1] = n}}, edges, Cardinality(nodes))

\* every non-deferred node depends on a node for each of its direct members
MembersFirst == done => \A n \in nodes : ~n.def =>
                   \A m \in Members(topo, n.t) : \E k \in nodes : k.t = m[1] /\ <<n, k>> \in edges
\* a deferred node is a revisit: its type is the root or occurs as a non-deferred node
CyclicImpliesRevisit == done => \A n \in nodes : n.def => (n.t = root \/ \E k \in nodes : ~k.def /\ k.t = n.t)
\* a deferred node denotes exactly the type it stands for, parameters included: a named type by reference,
\* a structural type only if the node carries the type itself (its bare name would drop the parameters)
DeferredDenotesExactly == done => \A n \in nodes : n.def => (IsNamed(n.t) \/ Structural = "defer_self")
RootPresent == done => Node(root, 0, FALSE) \in nodes
Terminates == <>done
=============================================================================
