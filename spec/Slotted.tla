------------------------------ MODULE Slotted ------------------------------
(***************************************************************************)
(* typelib.py.classes.slotted  (src/typelib/py/classes.py:69-128)          *)
(*                                                                         *)
(* A history is a sequence of decorations.  Step i defines a dataclass     *)
(* C_i = [name, where, nf own fields, base, frozen] and applies            *)
(* slotted(dict=d, weakref=w) to it.  `base` is 0 (no base) or refers to   *)
(* an earlier class of the history, in its slotted or its plain form.      *)
(*                                                                         *)
(* Implementation-shaped layer: Enter (module-global _stack keyed by       *)
(* repr(cls)), ComputeSlots (fields + flags minus the __slots__ found on   *)
(* the MRO), CreateClass (CPython layout rules: a second __dict__ /        *)
(* __weakref__ slot is refused), Exit.                                     *)
(* Reference layer: decoration never raises, _stack is empty between       *)
(* decorations, the slot formula, instance-dict presence.                  *)
(***************************************************************************)
EXTENDS Naturals, Sequences, FiniteSets, TLC, Json

CONSTANTS MaxHist,             \* longest decoration history
          Names,               \* class names (repetition across steps is the point)
          MaxFields,
          ReleaseAlways,       \* TRUE: the guard key is released on every exit (try/finally);
                               \* FALSE: `_stack.clear()` only after success (pinned snapshot)
          SeesImplicitSlots,   \* TRUE: an unslotted base counts as providing __dict__/__weakref__
          Emit

Desc == [name : Names, nf : 0..MaxFields, base : 0..(MaxHist - 1), baseform : {"slotted", "plain"},
         d : BOOLEAN, w : BOOLEAN]
F(i, k) == "c" \o ToString(i) \o "f" \o ToString(k)        \* field k declared by the class of step i

VARIABLES hist,     \* sequence of [desc, res, slots, hasdict, hasweak, plainok]
          stack     \* the module-global _stack: set of repr keys
vars == <<hist, stack>>

Key(desc) == desc.name        \* repr(cls): module-qualified name; the harness also varies module vs local scope

\* --- facts about an earlier class of the history, in the requested form ------------------
\* plain (unslotted) dataclasses always carry __dict__ and __weakref__
BaseHasDict(h, desc)  == desc.base # 0 /\ (desc.baseform = "plain" \/ h[desc.base].hasdict)
BaseHasWeak(h, desc)  == desc.base # 0 /\ (desc.baseform = "plain" \/ h[desc.base].hasweak)
\* all dataclass fields visible on the base: "b<i>f<k>"
RECURSIVE FieldsOf(_, _)
FieldsOf(h, i) == IF i = 0 THEN {} ELSE
   FieldsOf(h, h[i].desc.base) \cup {F(i, k) : k \in 1..h[i].desc.nf}
\* the union of __slots__ reachable through getattr on the MRO of the base (in its form)
RECURSIVE SlotsOnMro(_, _, _)
SlotsOnMro(h, i, form) ==
  IF i = 0 THEN {}
  ELSE (IF form = "slotted" THEN h[i].slots ELSE {})
       \cup SlotsOnMro(h, h[i].desc.base, h[i].desc.baseform)
\* does some class on the MRO (excluding the class being decorated and object) lack own __slots__?
RECURSIVE UnslottedOnMro(_, _, _)
UnslottedOnMro(h, i, form) ==
  IF i = 0 THEN FALSE ELSE form = "plain" \/ UnslottedOnMro(h, h[i].desc.base, h[i].desc.baseform)

Usable(h, desc) ==      \* the base must exist; a slotted form exists only if that decoration succeeded
  /\ desc.base <= Len(h)
  /\ (desc.base = 0 => desc.baseform = "plain")
  /\ (desc.base # 0 /\ desc.baseform = "slotted" => h[desc.base].res = "ok")

(******************** implementation-shaped layer **************************)
Step(h, st, desc) ==
  LET i == Len(h) + 1
      own == {F(i, k) : k \in 1..desc.nf}
      allfields == own \cup FieldsOf(h, desc.base)
      wanted == allfields \cup (IF desc.d THEN {"__dict__"} ELSE {}) \cup (IF desc.w THEN {"__weakref__"} ELSE {})
      inherited == SlotsOnMro(h, desc.base, desc.baseform)
                   \cup (IF SeesImplicitSlots /\ UnslottedOnMro(h, desc.base, desc.baseform)
                         THEN {"__dict__", "__weakref__"} ELSE {})
      slots == wanted \ inherited
      layoutError == \/ ("__dict__" \in slots /\ BaseHasDict(h, desc))
                     \/ ("__weakref__" \in slots /\ BaseHasWeak(h, desc))
      entered == Key(desc) \notin st
      res == IF ~entered THEN "TypeError:guard" ELSE IF layoutError THEN "TypeError:layout" ELSE "ok"
      st2 == IF ~entered THEN st
             ELSE IF res = "ok" THEN (IF ReleaseAlways THEN st ELSE {})
             ELSE (IF ReleaseAlways THEN st ELSE st \cup {Key(desc)})
  IN [rec |-> [desc |-> desc, res |-> res, slots |-> IF res = "ok" THEN slots ELSE {},
               hasdict |-> desc.d \/ BaseHasDict(h, desc),
               hasweak |-> desc.w \/ BaseHasWeak(h, desc)],
      stack |-> st2]

Init == hist = <<>> /\ stack = {}

Decorate(desc) ==
  /\ Len(hist) < MaxHist
  /\ Usable(hist, desc)
  /\ LET r == Step(hist, stack, desc) IN
     /\ hist' = Append(hist, r.rec)
     /\ stack' = r.stack
Next == \E desc \in Desc : Decorate(desc)
Spec == Init /\ [][Next]_vars

(************************* reference layer *********************************)
\* own fields must be slots; fields inherited from an unslotted base may be; nothing else but the
\* requested __dict__/__weakref__ (and those only when not already provided by a base)
SlotsOK(h, i) ==
  LET r == h[i] desc == r.desc
      own == {F(i, k) : k \in 1..desc.nf}
      alreadySlotted == SlotsOnMro(h, desc.base, desc.baseform)
      mayHave == (own \cup FieldsOf(h, desc.base)) \ alreadySlotted
  IN /\ own \subseteq r.slots
     /\ {s \in r.slots : s \notin {"__dict__", "__weakref__"}} \subseteq mayHave
     /\ ("__dict__" \in r.slots => desc.d)
     /\ ("__weakref__" \in r.slots => desc.w)
     /\ (desc.d => r.hasdict) /\ (desc.w => r.hasweak)

NeverRaises == \A i \in 1..Len(hist) : hist[i].res = "ok"
StackEmptyBetweenDecorations == stack = {}
SlotFormula == \A i \in 1..Len(hist) : hist[i].res = "ok" => SlotsOK(hist, i)

\* emission of complete histories (spec -> code)
EmitHist == (Emit /\ Len(hist) = MaxHist) => PrintT(ToJson([hist |-> hist]))
=============================================================================
