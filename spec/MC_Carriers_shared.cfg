SPECIFICATION Spec
CONSTANTS
  Texts <- PoolTexts
  Json <- JsonTbl
  Literal <- LitTbl
  DecodeFirst = TRUE
  HandsOutCopy = FALSE
  ViewReads = "view"
  ReleasesView = FALSE
  MaxCalls = 3
INVARIANT CarrierFree
INVARIANT LoadAgrees
INVARIANT NeverRaises
INVARIANT InputIntact
CHECK_DEADLOCK FALSE
