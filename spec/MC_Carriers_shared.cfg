SPECIFICATION Spec
CONSTANTS
  Texts <- PoolTexts
  Json <- JsonTbl
  Literal <- LitTbl
  DecodeFirst = TRUE
  HandsOutCopy = FALSE
  MaxCalls = 3
INVARIANT CarrierFree
INVARIANT LoadAgrees
INVARIANT NeverRaises
CHECK_DEADLOCK FALSE
