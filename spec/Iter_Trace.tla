----------------------------- MODULE Iter_Trace -----------------------------
(* Code -> spec: recorded calls of the real serdes.iteritems / itervalues must *)
(* yield what ItemsRef / ValuesRef of module Iter prescribe for that input.    *)
EXTENDS Iter, IOUtils

Log == ndJsonDeserialize(IOEnv.TRACE_FILE)
VARIABLE l

AsInput(e) == [kind |-> e.kind, elems |-> e.elems]
SeqToSet(s) == {s[i] : i \in 1..Len(s)}
Keys(s) == [i \in 1..Len(s) |-> s[i][1]]
Vals(s) == [i \in 1..Len(s) |-> s[i][2]]

SameItems(kind, got, want) ==
  IF kind \in Unordered
  THEN /\ Len(got) = Len(want)
       /\ SeqToSet(Vals(got)) = SeqToSet(Vals(want))
       /\ (want # <<>> /\ want[1][1] \in {"i0"} => Keys(got) = Keys(want))     \* indices still run 0..n-1
       /\ (want # <<>> /\ want[1][1] \notin {"i0"} => SeqToSet(got) = SeqToSet(want))
  ELSE got = want

SameValues(kind, got, want) ==
  IF kind \in Unordered THEN Len(got) = Len(want) /\ SeqToSet(got) = SeqToSet(want) ELSE got = want

Clause(e) ==
  LET y == AsInput(e) IN
  IF e.iraised # "" THEN "Items.raised"
  ELSE IF ~SameItems(e.kind, e.items, ItemsRef(y)) THEN
       (IF Len(e.items) # N(y) THEN "Items.eachOnce" ELSE "Items.pairs")
  ELSE IF e.vraised # "" THEN "Values.raised"
  ELSE IF ~SameValues(e.kind, e.values, ValuesRef(y)) THEN
       (IF Len(e.values) # N(y) THEN "Values.eachOnce" ELSE "Values.order")
  ELSE IF ~e.unchanged THEN "InputModified"
  ELSE ""

TraceInit == l = 1 /\ x = [kind |-> "-", elems |-> <<>>] /\ memo = [c \in {} |-> ""] /\ phase = "-"
             /\ out = [raised |-> "", items |-> <<>>]
TraceNext ==
  /\ l <= Len(Log)
  /\ l' = l + 1
  /\ LET e == Log[l] c == Clause(e) IN
     IF c = "" \/ ~Asserted(AsInput(e)) THEN TRUE
     ELSE PrintT(ToJson([rej |-> l, clause |-> c, want |-> ItemsRef(AsInput(e)), wantv |-> ValuesRef(AsInput(e))]))
  /\ UNCHANGED vars
TraceSpec == TraceInit /\ [][TraceNext]_<<vars, l>>
Consumed == PrintT(ToJson([consumed |-> TLCGet("stats").diameter - 1]))
=============================================================================
