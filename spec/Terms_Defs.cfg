SPECIFICATION Spec
CONSTANTS
  Profile = "quick"
  Emit = FALSE
CHECK_DEADLOCK FALSE
