------------------------------ MODULE Context ------------------------------
(***************************************************************************)
(* typelib.ctx.TypeContext  (src/typelib/ctx.py)                           *)
(*                                                                         *)
(* Reference layer: a write-once store and LookupRef, the lookup order the *)
(* documentation promises (itself, unwrapped form, forward reference       *)
(* naming it).  Implementation-shaped layer: the dict with the write-back  *)
(* memo of __missing__, step by step as written in ctx.py:25-45.           *)
(* TLC checks that the implementation layer refines the reference layer in *)
(* every reachable (stored, memo) state -- the state space is finite and   *)
(* complete, so this covers operation histories of every length.           *)
(*                                                                         *)
(* Keys are [b, f]: base class b in form f.  The value stored under a key  *)
(* is identified with that key (each insertion stores a distinguishable    *)
(* value), so a lookup answers "whose value was found", or NoKey.          *)
(***************************************************************************)
EXTENDS Naturals, FiniteSets, TLC, Json

CONSTANTS Bases,     \* e.g. {"B1", "B2"}
          Forms,     \* subset of AllForms
          Emit       \* TRUE: print every transition as JSON (spec -> code replay)

AllForms == {"self", "newtype", "alias", "salias", "final", "classvar",
             "fref",                      \* ForwardRef to the base class
             "nref", "aref", "sref",      \* ForwardRefs naming the NewType / alias / string alias
             \* wrappers of wrappers: NewType over the value alias, over the NewType, over the string alias; Final[NewType]
             "nt_al", "nt_nt", "nt_sal", "fin_nt"}

Keys  == [b : Bases, f : Forms]
NoKey == [b |-> "-", f |-> "-"]
K(b, f) == [b |-> b, f |-> f]

IsRef(k) == k.f \in {"fref", "nref", "aref", "sref"}

\* inspection.unwrap: NewType / TypeAliasType(value) / Final / ClassVar peel to the base;
\* a string-valued alias becomes the ForwardRef to its body; everything else is itself.
Unwrap(k) == CASE k.f \in {"newtype", "alias", "final", "classvar", "nt_al", "nt_nt", "fin_nt"} -> K(k.b, "self")
               [] k.f \in {"salias", "nt_sal"} -> K(k.b, "fref")
               [] OTHER -> k

\* refs.forwardref(key): the forward reference *naming the key itself*.  For Final[..] and
\* ClassVar[..] that is ForwardRef('Final'|'ClassVar', module='typing'), outside any family; the references naming
\* the wrappers of wrappers are not keys of the family either.
RefNaming(k) == CASE k.f = "self"    -> K(k.b, "fref")
                  [] k.f = "newtype" -> K(k.b, "nref")
                  [] k.f = "alias"   -> K(k.b, "aref")
                  [] k.f = "salias"  -> K(k.b, "sref")
                  [] OTHER -> NoKey

(************************* reference layer *********************************)
LookupRef(S, k) ==
  IF k \in S THEN k
  ELSE IF Unwrap(k) \in S THEN Unwrap(k)
  ELSE IF RefNaming(k) \in S THEN RefNaming(k)
  ELSE NoKey

(******************** implementation-shaped layer **************************)
VARIABLES stored,   \* keys written by the user (the reference store's domain)
          memo      \* function: keys written back by __missing__ |-> whose value they hold
vars == <<stored, memo>>

DictKeys == stored \cup DOMAIN memo
DictVal(k) == IF k \in stored THEN k ELSE memo[k]

\* dict.__getitem__ with __missing__ (ctx.py:25-45); result [out, memoKey]
Missing(k) ==
  IF IsRef(k) THEN [out |-> NoKey, wb |-> NoKey]                \* "already tried this"
  ELSE LET u == Unwrap(k) IN
       IF u \in DictKeys THEN [out |-> DictVal(u), wb |-> k]    \* write back under k
       ELSE LET r == RefNaming(k) IN
            IF r \in DictKeys THEN [out |-> DictVal(r), wb |-> NoKey]
            ELSE [out |-> NoKey, wb |-> NoKey]                   \* self[ref] -> __missing__(ref) -> KeyError

GetItemRes(k) == IF k \in DictKeys THEN [out |-> DictVal(k), wb |-> NoKey] ELSE Missing(k)

Init == stored = {} /\ memo = [x \in {} |-> NoKey]

Note(op, k, res) ==
  Emit => PrintT(ToJson([op |-> op, key |-> k, out |-> res,
                         stored |-> stored, memo |-> DOMAIN memo,
                         stored2 |-> stored', memo2 |-> DOMAIN memo']))

Insert(k) ==
  /\ k \notin stored                       \* write-once: only fresh keys are inserted
  /\ stored' = stored \cup {k}
  /\ memo' = [x \in (DOMAIN memo) \ {k} |-> memo[x]]
  /\ Note("insert", k, k)

Lookup(op, k) ==                           \* ctx[k]  and  ctx.get(k, default)
  LET res == GetItemRes(k) IN
  /\ stored' = stored
  /\ memo' = IF res.wb = NoKey THEN memo
             ELSE [x \in DOMAIN memo \cup {res.wb} |-> IF x = res.wb THEN res.out ELSE memo[x]]
  /\ Note(op, k, res.out)

Contains(k) ==                             \* `k in ctx`, observed for stored keys only
  /\ k \in stored
  /\ UNCHANGED vars
  /\ Note("contains", k, k)

Next == \E k \in Keys : Insert(k) \/ Lookup("getitem", k) \/ Lookup("get", k) \/ Contains(k)

Spec == Init /\ [][Next]_vars

(***************************** properties **********************************)
TypeOK == stored \subseteq Keys /\ DOMAIN memo \subseteq Keys

\* Refinement: in every reachable state the dict answers every key as the reference does.
Refines == \A k \in Keys : GetItemRes(k).out = LookupRef(stored, k)

StoredFoundUnderItself == \A k \in stored : GetItemRes(k).out = k

\* the memo never shadows or contradicts the store
MemoSound == \A m \in DOMAIN memo : m \notin stored /\ memo[m] = LookupRef(stored, m)

\* a lookup never changes the result of any later lookup (action property)
LookupStable ==
  [][stored' = stored => \A k \in Keys : GetItemRes(k).out' = GetItemRes(k).out]_vars
=============================================================================
