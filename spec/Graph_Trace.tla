---------------------------- MODULE Graph_Trace ----------------------------
(* Code -> spec: node sequences returned by the real graph.static_order.  Types *)
(* are opaque ids; the harness supplies, from the standard library only         *)
(* (typing.get_args / get_type_hints), the direct members of every type, and    *)
(* what each deferred node evaluates to.  TLC evaluates the invariants of the   *)
(* statement on every observed sequence, for whatever linear extension          *)
(* graphlib produced.                                                           *)
EXTENDS Naturals, Sequences, FiniteSets, TLC, Json, IOUtils

Log == ndJsonDeserialize(IOEnv.TRACE_FILE)
VARIABLE l

\* node: [t, u, su, var, cyc, ref, uref, den, denu, uden]    event: [nodes, root, rootu, members, salias, equiv, raised]
Mem(e, id) == IF id \in DOMAIN e.members THEN {e.members[id][i] : i \in 1..Len(e.members[id])} ELSE {}
Stands(n, m) == IF n.cyc THEN n.den = m ELSE (n.t = m \/ n.u = m)

\* (tr: the declared type as an object -- the graph may hold a node for None and one for NoneType)
NoDup(e) == \A i, j \in 1..Len(e.nodes) : i # j =>
              <<e.nodes[i].tr, e.nodes[i].u, e.nodes[i].var, e.nodes[i].cyc>> # <<e.nodes[j].tr, e.nodes[j].u, e.nodes[j].var, e.nodes[j].cyc>>
RootLast(e) == Len(e.nodes) > 0 /\ (e.nodes[Len(e.nodes)].t = e.root \/ e.nodes[Len(e.nodes)].u = e.rootu) /\ ~e.nodes[Len(e.nodes)].cyc
\* su: the declared type unwrapped by the harness (NewType / alias / Final / ClassVar peeled with typing only)
MembersFirst(e) == \A i \in 1..Len(e.nodes) : ~e.nodes[i].cyc =>
                      \A m \in Mem(e, e.nodes[i].su) \cup Mem(e, e.nodes[i].u) : \E j \in 1..(i - 1) : Stands(e.nodes[j], m)
UnwrappedFully(e) == \A i \in 1..Len(e.nodes) : (~e.nodes[i].cyc /\ ~e.nodes[i].uref /\ ~e.nodes[i].ref) => e.nodes[i].u = e.nodes[i].su
RefImpliesCyclic(e) == \A i \in 1..Len(e.nodes) : e.nodes[i].ref => e.nodes[i].cyc
\* (a NewType / alias of an already visited type is a revisit of that type: denu is den unwrapped with typing only)
CyclicImpliesRevisit(e) == \A i \in 1..Len(e.nodes) : e.nodes[i].cyc =>
                             \/ {e.nodes[i].den, e.nodes[i].denu} \cap {e.root, e.rootu} # {}
                             \/ \E k \in 1..Len(e.nodes) : ~e.nodes[k].cyc /\ {e.nodes[k].t, e.nodes[k].u} \cap {e.nodes[i].den, e.nodes[i].denu} # {}
\* the deferred node's own `unwrapped` denotes the type it stands for (or its unwrapped form), parameters included
DeferredUnwrappedDenotes(e) == \A i \in 1..Len(e.nodes) : (e.nodes[i].cyc /\ e.nodes[i].den # "unresolvable") =>
                             \* (some stage of unwrapping it: a string alias unwraps to the reference to its body only)
                             \/ e.nodes[i].uden \in {e.nodes[i].den, e.nodes[i].denu}
                             \/ \E s \in 1..Len(e.nodes[i].dstages) : e.nodes[i].dstages[s] = e.nodes[i].uden
DeferredDenotesExactly(e) == \A i \in 1..Len(e.nodes) : e.nodes[i].cyc =>
                             /\ e.nodes[i].den # "unresolvable"
                             \* it stands for a direct member of the node(s) that depend on it
                             /\ \E k \in 1..Len(e.nodes) : ~e.nodes[k].cyc /\ e.nodes[i].den \in Mem(e, e.nodes[k].u)
StringAlias(e) == \A i \in 1..Len(e.nodes) : (\E s \in 1..Len(e.salias) : e.salias[s] = e.nodes[i].t) =>
                     (e.nodes[i].uref /\ Mem(e, e.nodes[i].u) = {} /\ e.nodes[i].den # "unresolvable")
EquivalentRoots(e) == \A i \in 1..Len(e.equiv) : e.equiv[i].same

Clause(e) ==
  IF e.raised # "" THEN "Terminates.raised"
  ELSE IF ~NoDup(e) THEN "NoDup"
  ELSE IF ~RootLast(e) THEN "RootLast"
  ELSE IF ~RefImpliesCyclic(e) THEN "RefImpliesCyclic"
  ELSE IF ~DeferredDenotesExactly(e) THEN "DeferredDenotesExactly"
  ELSE IF ~DeferredUnwrappedDenotes(e) THEN "DeferredDenotesExactly.unwrapped"
  ELSE IF ~CyclicImpliesRevisit(e) THEN "CyclicImpliesRevisit"
  ELSE IF ~UnwrappedFully(e) THEN "NodeCarriesUnwrappedType"
  ELSE IF ~MembersFirst(e) THEN "MembersFirst"
  ELSE IF ~StringAlias(e) THEN "StringAliasIsOneDeferredNode"
  ELSE IF ~EquivalentRoots(e) THEN "EquivalentRoots"
  ELSE ""

TraceInit == l = 1
TraceNext == /\ l <= Len(Log) /\ l' = l + 1
             /\ LET c == Clause(Log[l]) IN IF c = "" THEN TRUE ELSE PrintT(ToJson([rej |-> l, clause |-> c]))
TraceSpec == TraceInit /\ [][TraceNext]_l
Consumed == PrintT(ToJson([consumed |-> TLCGet("stats").diameter - 1]))
=============================================================================
