SPECIFICATION Spec
CONSTANTS
  Bases = {"B1", "B2", "B3"}
  Forms = {"self", "newtype", "alias", "salias", "final", "fref"}
  Emit = FALSE
INVARIANT TypeOK
INVARIANT Refines
INVARIANT StoredFoundUnderItself
INVARIANT MemoSound
PROPERTY LookupStable
CHECK_DEADLOCK FALSE
