SPECIFICATION Spec
CONSTANTS
  EasyPath = "first_dot"
  Probe = "text"
  Emit = FALSE
INVARIANT Transparent
CHECK_DEADLOCK FALSE
