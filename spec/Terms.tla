-------------------------------- MODULE Terms --------------------------------
(***************************************************************************)
(* The type universe U of DESIGN.md section 3 as TLA+ terms: constructors,  *)
(* the fixed class table, bounded generators.  TLC enumerates the universe  *)
(* and emits every type term; the harness materialises each one as a real   *)
(* annotation (harness/typeterms.py) and draws valid values for it.         *)
(***************************************************************************)
EXTENDS Wire, Json

CONSTANTS Profile,     \* "quick" | "full"
          Emit

P(n)            == [k |-> "prim", n |-> n]
E(e)            == [k |-> "enum", e |-> e]
Lit(vs)         == [k |-> "lit", vs |-> vs]
Coll(c, sp, a)  == [k |-> "coll", c |-> c, sp |-> sp, a |-> a]
Map(sp, ka, va) == [k |-> "map", c |-> "dict", sp |-> sp, ka |-> ka, va |-> va]
Tup(xs)         == [k |-> "tup", xs |-> xs]
Un(sp, xs)      == [k |-> "union", sp |-> sp, xs |-> xs]
Cls(c)          == [k |-> "cls", c |-> c]
Wrap(w, a)      == [k |-> w, a |-> a]
NoneT           == P("NoneType")
Opt(a)          == Un("Optional", <<a, NoneT>>)

LInt(s) == [k |-> "int", s |-> s]
LStr(s) == [k |-> "str", s |-> s]
LBool(s) == [k |-> "bool", s |-> s]
LNone == [k |-> "none"]

\* --- the class table (name |-> flavour, module, python name, fields <<name, type, has default>>) ----
Defs == [
  D1  |-> [flavour |-> "dataclass",    module |-> "m1", py |-> "D1",  fields |-> << <<"a", P("int"), FALSE>>, <<"b", P("str"), FALSE>> >>],
  D2  |-> [flavour |-> "dc_slots",     module |-> "m1", py |-> "D2",  fields |-> << <<"x", P("float"), FALSE>>, <<"d", Cls("D1"), FALSE>> >>],
  D3  |-> [flavour |-> "dc_kwonly",    module |-> "m1", py |-> "D3",  fields |-> << <<"n", P("int"), FALSE>>, <<"tags", Coll("list", "builtin", P("str")), FALSE>> >>],
  D4  |-> [flavour |-> "dc_frozen",    module |-> "m1", py |-> "D4",  fields |-> << <<"k", P("str"), FALSE>>, <<"v", P("Decimal"), FALSE>> >>],
  D1b |-> [flavour |-> "dataclass",    module |-> "m2", py |-> "D1",  fields |-> << <<"a", P("str"), FALSE>>, <<"b", P("date"), FALSE>> >>],
  N1  |-> [flavour |-> "namedtuple",   module |-> "m1", py |-> "N1",  fields |-> << <<"x", P("int"), FALSE>>, <<"y", P("str"), FALSE>> >>],
  N2  |-> [flavour |-> "namedtuple",   module |-> "m1", py |-> "N2",  fields |-> << <<"p", Tup(<<P("int"), P("int")>>), FALSE>>, <<"q", P("str"), FALSE>> >>],
  N3  |-> [flavour |-> "namedtuple",   module |-> "m1", py |-> "N3",  fields |-> << <<"s", P("str"), FALSE>>, <<"i", P("int"), FALSE>> >>],
  TD1 |-> [flavour |-> "typeddict",    module |-> "m1", py |-> "TD1", fields |-> << <<"x", P("int"), FALSE>>, <<"y", P("str"), FALSE>> >>],
  TD2 |-> [flavour |-> "typeddict_nr", module |-> "m1", py |-> "TD2", fields |-> << <<"x", P("int"), FALSE>>, <<"y", P("str"), TRUE>> >>],
  P1  |-> [flavour |-> "plain",        module |-> "m1", py |-> "P1",  fields |-> << <<"a", P("int"), FALSE>>, <<"b", P("date"), FALSE>> >>],
  S1  |-> [flavour |-> "slots",        module |-> "m1", py |-> "S1",  fields |-> << <<"a", P("int"), FALSE>>, <<"u", P("UUID"), FALSE>> >>],
  R1  |-> [flavour |-> "dataclass",    module |-> "m1", py |-> "R1",  fields |-> << <<"v", P("int"), FALSE>>, <<"nxt", Opt(Cls("R1")), TRUE>> >>],
  M1  |-> [flavour |-> "dataclass",    module |-> "m1", py |-> "M1",  fields |-> << <<"v", P("Decimal"), FALSE>>, <<"m", Opt(Cls("M2")), TRUE>> >>],
  M2  |-> [flavour |-> "namedtuple",   module |-> "m2", py |-> "M2",  fields |-> << <<"k", Coll("list", "builtin", Cls("M1")), FALSE>>, <<"t", P("timedelta"), FALSE>> >>],
  \* a public ClassVar next to the instance field (class-level: never a member of the instance's wire form)
  D5  |-> [flavour |-> "dataclass",    module |-> "m1", py |-> "D5",  fields |-> << <<"n", P("int"), FALSE>>, <<"cv", Wrap("classvar", P("int")), TRUE>> >>],
  \* every field a 2-member collection (an instance must not be mistaken for an iterable of pairs)
  N4  |-> [flavour |-> "namedtuple",   module |-> "m1", py |-> "N4",  fields |-> << <<"p", Tup(<<P("int"), P("int")>>), FALSE>>, <<"q", Tup(<<P("str"), P("str")>>), FALSE>> >>],
  \* total=False body on top of a total base: x stays required
  TD3 |-> [flavour |-> "typeddict_inh", module |-> "m1", py |-> "TD3", fields |-> << <<"x", P("int"), FALSE>>, <<"y", P("str"), TRUE>> >>],
  \* one member type reached on two paths, the second time behind a NewType / through the same alias object
  W1  |-> [flavour |-> "dataclass",    module |-> "m1", py |-> "W1",  fields |-> << <<"a", Cls("D1"), FALSE>>, <<"b", Wrap("newtype", Cls("D1")), FALSE>> >>],
  W2  |-> [flavour |-> "dataclass",    module |-> "m1", py |-> "W2",  fields |-> << <<"a", Wrap("alias", Coll("list", "builtin", P("Decimal"))), FALSE>>,
                                                                                     <<"b", Wrap("alias", Coll("list", "builtin", P("Decimal"))), FALSE>> >>],
  \* two classes holding the same alias object: whichever is built second meets the alias as a revisit
  A1  |-> [flavour |-> "dataclass",    module |-> "m1", py |-> "A1",  fields |-> << <<"bag", Wrap("alias", Coll("list", "builtin", P("Decimal"))), FALSE>> >>],
  A2  |-> [flavour |-> "dataclass",    module |-> "m1", py |-> "A2",  fields |-> << <<"bag", Wrap("alias", Coll("list", "builtin", P("Decimal"))), FALSE>>, <<"n", P("int"), FALSE>> >>],
  \* the typing_extensions spelling of TypedDict (another class than typing.TypedDict on 3.12)
  TD4 |-> [flavour |-> "typeddict_te",  module |-> "m1", py |-> "TD4", fields |-> << <<"x", P("int"), FALSE>>, <<"d", P("date"), FALSE>> >>],
  \* a total body on top of a total=False base: nick stays optional
  TD5 |-> [flavour |-> "typeddict_inh2", module |-> "m1", py |-> "TD5", fields |-> << <<"id", P("int"), FALSE>>, <<"nick", P("str"), TRUE>> >>],
  \* inheritance: a slotted dataclass on a slotted dataclass, a dataclass on a dataclass (all fields listed, inherited first)
  S2  |-> [flavour |-> "dc_slots",     module |-> "m1", py |-> "S2",  base |-> "D2",
           fields |-> << <<"x", P("float"), FALSE>>, <<"d", Cls("D1"), FALSE>>, <<"extra", P("Decimal"), FALSE>> >>],
  D6  |-> [flavour |-> "dataclass",    module |-> "m1", py |-> "D6",  base |-> "D1",
           fields |-> << <<"a", P("int"), FALSE>>, <<"b", P("str"), FALSE>>, <<"c", P("date"), FALSE>> >>],
  \* an Optional field whose default is not None (an explicit None must stay None)
  D7  |-> [flavour |-> "dataclass",    module |-> "m1", py |-> "D7",  fields |-> << <<"owner", P("str"), FALSE>>, <<"limit", Opt(P("int")), TRUE, "100">> >>],
  N5  |-> [flavour |-> "namedtuple",   module |-> "m1", py |-> "N5",  fields |-> << <<"a", P("int"), FALSE>>, <<"b", Opt(P("int")), TRUE, "-1">> >>],
  \* member names that collide with attributes of dict / tuple / object
  TD6 |-> [flavour |-> "typeddict",    module |-> "m1", py |-> "TD6", fields |-> << <<"items", Coll("list", "builtin", P("int")), FALSE>>, <<"keys", P("str"), FALSE>> >>],
  D8  |-> [flavour |-> "dataclass",    module |-> "m1", py |-> "D8",  fields |-> << <<"items", P("int"), FALSE>>, <<"values", P("date"), FALSE>> >>],
  N6  |-> [flavour |-> "namedtuple",   module |-> "m1", py |-> "N6",  fields |-> << <<"count", P("int"), FALSE>>, <<"index", P("Decimal"), FALSE>> >>],
  \* a slotted dataclass without any field (no __dict__ to fall back on)
  E0  |-> [flavour |-> "dc_slots",     module |-> "m1", py |-> "E0",  fields |-> << >>],
  \* a dataclass with a field that is no constructor parameter (init=False, with a default)
  D9  |-> [flavour |-> "dataclass",    module |-> "m1", py |-> "D9",  fields |-> << <<"a", P("int"), FALSE>>,
                                                                                     <<"stamp", Wrap("noinit", P("date")), TRUE, "datetime.date(2020, 1, 1)">> >>],
  \* seven members, named like things routines use themselves (a parameter of a routine, a dict method, a keyword-like word)

  W7  |-> [flavour |-> "dataclass",    module |-> "m1", py |-> "W7",  fields |-> << <<"t", P("int"), FALSE>>, <<"val", P("str"), FALSE>>,
             <<"get", P("date"), FALSE>>, <<"type", P("Decimal"), FALSE>>, <<"args", Coll("list", "builtin", P("int")), FALSE>>,
             <<"kwargs", Map("builtin", P("str"), P("int")), FALSE>>, <<"items", P("bool"), FALSE>> >>],
  \* TypedDict keys that are no identifiers a class could use, or differ only by case (non-ASCII names are not used: value terms carry escaped text)
  TD7 |-> [flavour |-> "typeddict",    module |-> "m1", py |-> "TD7", fields |-> << <<"self", P("int"), FALSE>>, <<"cls", P("date"), FALSE>>,
             <<"Key", P("int"), FALSE>>, <<"key", P("str"), FALSE>>, <<"KEY", P("Decimal"), FALSE>> >>],
  \* members declared along a chain of three plain annotated classes (root, middle, the class itself)
  P3  |-> [flavour |-> "plain_mro",    module |-> "m1", py |-> "P3",  fields |-> << <<"a", P("int"), FALSE>>, <<"b", P("date"), FALSE>>, <<"c", P("Decimal"), FALSE>> >>],
  \* a class derived from a named tuple, adding only behaviour
  N7  |-> [flavour |-> "nt_sub",       module |-> "m1", py |-> "N7",  fields |-> << <<"s", P("str"), FALSE>>, <<"d", P("date"), FALSE>>, <<"v", P("Decimal"), FALSE>> >>],
  \* a TypedDict three levels deep: total root, total=False middle, total leaf
  TD8 |-> [flavour |-> "typeddict_inh3", module |-> "m1", py |-> "TD8", fields |-> << <<"id", P("int"), FALSE>>, <<"body", P("str"), TRUE>>, <<"kind", P("date"), FALSE>> >>],
  \* a required key / member whose type admits None (present-and-None is not absent)
  TD9 |-> [flavour |-> "typeddict",    module |-> "m1", py |-> "TD9", fields |-> << <<"user", P("str"), FALSE>>, <<"nick", Opt(P("str")), FALSE>> >>],
  \* a dataclass in m2 derived from m1's R1: the inherited member `nxt` is annotated with the text "R1" in m1 -- and m2 binds the
  \* name R1 to another class (R1b); an inherited annotation means what it means where it was written
  X1  |-> [flavour |-> "dataclass",    module |-> "m2", py |-> "X1",  base |-> "R1",
           fields |-> << <<"v", P("int"), FALSE>>, <<"nxt", Opt(Cls("R1")), TRUE>>, <<"note", Opt(P("date")), TRUE>> >>],
  \* the same, the derived class keeping the very name of its base (class Text(m1.Text) in m2)
  X2  |-> [flavour |-> "dataclass",    module |-> "m2", py |-> "Text", base |-> "R2",
           fields |-> << <<"v", P("int"), FALSE>>, <<"nxt", Opt(Cls("R2")), TRUE>>, <<"note", Opt(P("date")), TRUE>> >>],
  \* keys that are a Python keyword / no identifier (functional syntax)
  TD10 |-> [flavour |-> "typeddict_fn", module |-> "m1", py |-> "TD10", fields |-> << <<"from", P("int"), FALSE>>, <<"content-type", P("str"), FALSE>>,
              <<"to", P("date"), FALSE>> >>],
  \* a dataclass whose instances are falsy (a status object, an empty page: __bool__ / __len__ belong to the value, not to its type)
  F1  |-> [flavour |-> "dc_falsy",     module |-> "m1", py |-> "F1",  fields |-> << <<"n", P("int"), FALSE>>, <<"at", P("date"), FALSE>> >>],
  \* a dataclass whose instances can be called (a structured class like any other)
  K1  |-> [flavour |-> "dc_call",      module |-> "m1", py |-> "K1",  fields |-> << <<"n", P("int"), FALSE>>, <<"at", P("date"), FALSE>> >>],
  \* no class-level annotations: members come from the constructor's signature, one of them keyword-only
  G1  |-> [flavour |-> "sig",          module |-> "m1", py |-> "G1",  fields |-> << <<"a", P("int"), FALSE>>, <<"when", Opt(P("date")), TRUE>> >>],
  \* a recursive class whose Python name is also a name the typing module exports (typing.Text is str)
  R2  |-> [flavour |-> "dataclass",    module |-> "m1", py |-> "Text", fields |-> << <<"v", P("int"), FALSE>>, <<"nxt", Opt(Cls("R2")), TRUE>> >>],
  \* a second recursive class with the Python name of R1, in another module, with other field types
  R1b |-> [flavour |-> "dataclass",    module |-> "m2", py |-> "R1",  fields |-> << <<"v", P("str"), FALSE>>, <<"nxt", Opt(Cls("R1b")), TRUE>> >>]
]
ClassNames == DOMAIN Defs

Prims == {"int", "bool", "float", "str", "Decimal", "Fraction", "UUID", "PurePosixPath", "Path", "Pattern",
          "date", "datetime", "time", "timedelta", "NoneType"}
BytesPrims == {"bytes", "bytearray"}
HashPrims == Prims \ {"Pattern"}
Enums == {"Color", "Level", "Tag"}
\* (the last three mix a text with the value that text decodes to)
Lits == {Lit(<<LInt("1"), LStr("a")>>), Lit(<<LStr("x"), LNone>>), Lit(<<LBool("True"), LInt("2")>>),
         Lit(<<LStr("1"), LInt("1")>>), Lit(<<LStr("null"), LNone>>), Lit(<<LStr("true"), LBool("True")>>),
         \* members that compare equal but are of different classes
         Lit(<<LInt("1"), LBool("True")>>), Lit(<<LInt("0"), LBool("False"), LStr("off")>>),
         Lit(<<LStr("on"), LStr("off")>>),
         \* ten members
         Lit(<<LStr("c1"), LStr("c2"), LStr("c3"), LStr("c4"), LStr("c5"), LStr("c6"), LStr("c7"), LStr("c8"), LStr("c9"), LInt("10")>>)}

CollSpell == {<<"list", "builtin">>, <<"list", "typing">>, <<"list", "Sequence">>, <<"list", "abcSequence">>,
              <<"list", "MutableSequence">>, <<"list", "Collection">>, <<"list", "Iterable">>, <<"list", "abcIterable">>,
              <<"set", "builtin">>, <<"set", "typing">>, <<"set", "AbstractSet">>, <<"set", "MutableSet">>, <<"set", "abcSet">>,
              <<"frozenset", "builtin">>, <<"frozenset", "typing">>, <<"deque", "builtin">>, <<"deque", "typing">>,
              <<"tuple", "builtin">>, <<"tuple", "typing">>}
MapSpell == {"builtin", "typing", "Mapping", "MutableMapping", "abcMapping"}
SetLike(c) == c \in {"set", "frozenset"}

RECURSIVE Hashable(_)
Hashable(T) ==
  CASE T.k = "prim" -> T.n \in HashPrims \cup {"bytes"}
    [] T.k \in {"enum", "lit"} -> TRUE
    [] T.k = "tup" -> \A i \in 1..Len(T.xs) : Hashable(T.xs[i])
    [] T.k = "coll" -> T.c \in {"frozenset", "tuple"} /\ Hashable(T.a)
    [] T.k = "union" -> \A i \in 1..Len(T.xs) : Hashable(T.xs[i])
    [] T.k \in Wrappers -> Hashable(T.a)
    [] T.k = "cls" -> Defs[T.c].flavour \in {"dc_frozen", "namedtuple", "nt_sub"} /\
                      \A i \in 1..Len(Defs[T.c].fields) : Defs[T.c].fields[i][2].k = "prim"
    [] OTHER -> FALSE

Leaves == {P(n) : n \in Prims} \cup {E(e) : e \in Enums} \cup Lits \cup {Cls(c) : c \in ClassNames}
\* representative members for composite positions (routing only needs distinguishable leaves)
Rep == IF Profile = "quick"
       THEN {P("int"), P("str"), P("date"), E("Tag"), Cls("D1"), Cls("N2")}
       ELSE {P("int"), P("str"), P("float"), P("Decimal"), P("date"), P("datetime"), P("timedelta"), E("Tag"), E("Level"),
             Cls("D1"), Cls("N2"), Cls("TD1"), Cls("R1"), Cls("D1b")}
\* (Decimal and aware datetime keys: equal keys that print differently -- exponent, UTC offset)
KeyRep == IF Profile = "quick" THEN {P("str"), P("int"), E("Tag"), P("Decimal"), P("datetime")}
          ELSE {P("str"), P("int"), P("date"), P("UUID"), P("Decimal"), P("datetime"), P("float"), E("Tag"), E("Color"),
                Tup(<<P("int"), P("str")>>), Cls("D4")}

Ctors(S, R, K) ==        \* one more constructor layer: S everywhere-eligible, R representative, K key types
       UNION {{Coll(cs[1], cs[2], a) : a \in {x \in R : SetLike(cs[1]) => Hashable(x)}} : cs \in CollSpell}
  \cup UNION {{Coll(c, "builtin", a) : a \in {x \in S : SetLike(c) => Hashable(x)}} : c \in {"list", "set", "frozenset", "deque", "tuple"}}
  \cup {Map(sp, ka, va) : sp \in MapSpell, ka \in K, va \in R}
  \cup {Map("builtin", ka, va) : ka \in K, va \in S}
  \cup {Tup(<<a>>) : a \in R} \cup {Tup(<<a, b>>) : a \in R, b \in R} \cup {Tup(<<a, b, a>>) : a \in R, b \in R}
  \cup {Opt(a) : a \in S \ {NoneT}}
  \cup {Un("pipe", <<a, NoneT>>) : a \in R} \cup {Un("Union", <<NoneT, a>>) : a \in R}
  \cup {Un(ab[1], <<ab[2], ab[3]>>) : ab \in {x \in {"Union", "pipe"} \X R \X R : x[2] # x[3]}}

Depth1 == Leaves \cup Ctors(Leaves, Rep, KeyRep)
Rep1 == IF Profile = "quick"
        THEN {Coll("list", "builtin", P("int")), Map("builtin", P("str"), P("int")), Opt(Cls("D1")), Tup(<<P("int"), P("str")>>),
              Coll("set", "builtin", E("Tag"))}
        ELSE {Coll("list", "builtin", P("int")), Coll("list", "Sequence", Cls("D1")), Map("builtin", P("str"), P("int")),
              Map("Mapping", E("Tag"), Cls("N2")), Opt(Cls("D1")), Opt(P("date")), Tup(<<P("int"), P("str")>>),
              Coll("set", "builtin", E("Tag")), Coll("tuple", "builtin", P("Decimal")), Un("Union", <<P("int"), P("str")>>),
              Coll("deque", "builtin", Cls("R1"))}
Depth2 == Depth1 \cup Ctors(Rep1, Rep1, {Tup(<<P("int"), P("str")>>), Coll("frozenset", "builtin", P("int"))})
WrapperChains == {Wrap(w, a) : w \in {"newtype", "alias", "salias", "final"}, a \in Rep \cup Rep1}
            \cup {Wrap("newtype", Wrap("alias", a)) : a \in Rep} \cup {Wrap("alias", Wrap("newtype", a)) : a \in Rep}
\* Final is only legal at the root (and on class fields); the other wrappers may be nested anywhere
Nestable == {w \in WrapperChains : w.k # "final"}
WithWrappers == {Coll("list", "builtin", w) : w \in Nestable} \cup {Opt(w) : w \in Nestable} \cup WrapperChains

\* adversarial corners the generic layers do not reach: None declared between other members, one wrapper
\* object reached on two paths, equal class names from two modules in one graph
NoneMiddle == {Un("Union", <<a, NoneT, b>>) : a \in {P("str"), P("Decimal"), P("UUID")}, b \in {P("int"), P("bool")}}
Twice(w) == {Tup(<<w, Coll("list", "builtin", w)>>), Tup(<<Coll("list", "builtin", w), w>>), Tup(<<w, w>>),
             Map("builtin", P("str"), Tup(<<w, w>>))}
TwicePaths == UNION {Twice(w) : w \in {Wrap("newtype", Cls("D1")), Wrap("alias", Cls("D1")), Wrap("salias", Cls("D1")),
                                       Wrap("alias", Coll("list", "builtin", P("int"))), Wrap("alias", Coll("list", "builtin", P("date"))),
                                       Wrap("alias", Opt(P("date"))),
                                       Wrap("salias", Coll("list", "builtin", P("date"))), Wrap("salias", Coll("list", "builtin", Cls("D1"))),
                                       Wrap("newtype", P("int"))}}
NameClash == {Tup(<<Cls("D1"), Cls("D1b"), Cls("D1")>>), Tup(<<Cls("D1b"), Cls("D1"), Cls("D1b")>>),
              Tup(<<Cls("R1"), Cls("R1b")>>), Tup(<<Cls("R1b"), Cls("R1")>>),
              Map("builtin", P("str"), Tup(<<Cls("D1b"), Cls("D1")>>)),
              Tup(<<Coll("list", "builtin", Cls("R1b")), Cls("R1"), Cls("R1b")>>),
              Tup(<<Cls("A1"), Cls("A2")>>), Tup(<<Cls("A2"), Cls("A1")>>)}
\* `type Nothing = None`: the alias value is the object None, not NoneType
NoneAlias == {Wrap("alias", NoneT), Coll("list", "builtin", Wrap("alias", NoneT)), Map("builtin", Wrap("alias", NoneT), P("date")),
              Opt(Wrap("newtype", NoneT))}
\* an enumeration declared after a container / record member (its members must not pass for an empty container)
EnumAfter == {Un("Union", <<a, E(e)>>) : a \in {Coll("list", "builtin", P("int")), Map("builtin", P("str"), P("int")), Cls("D1"),
                                                 Tup(<<P("int"), P("str")>>), Cls("TD2")}, e \in {"Color", "Level"}}
\* size: six union members, five nesting levels, a fixed tuple of six
Scale == {Un("Union", <<P("bool"), P("int"), P("float"), P("date"), Cls("D1"), Coll("list", "builtin", P("int")), NoneT>>),
          Coll("list", "builtin", Coll("list", "builtin", Coll("list", "builtin", Coll("list", "builtin", Coll("list", "builtin", P("date")))))),
          Map("builtin", P("str"), Map("builtin", P("str"), Map("builtin", P("str"), Map("builtin", P("str"), Coll("list", "builtin", Cls("D1")))))),
          Tup(<<P("int"), P("str"), P("date"), P("Decimal"), E("Tag"), Cls("N1")>>)}
Adversarial == NoneMiddle \cup TwicePaths \cup NameClash \cup NoneAlias \cup EnumAfter \cup Scale

Universe == Depth2 \cup WithWrappers \cup Adversarial

(*********************** extended grammar (C15) ****************************)
\* annotations outside U that must still *build*: Any, object, bare generics, TypeVars, Callable, type[X],
\* user generics bare and parameterised, classes without hints
Ext(n) == [k |-> "ext", n |-> n]
ExtNames == {"Any", "object", "list", "dict", "tuple", "set", "frozenset", "typing.List", "typing.Dict", "typing.Tuple",
             "typing.Set", "typing.Mapping", "typing.Sequence", "typing.Iterable", "T_free", "T_bound", "T_constr",
             "Callable", "CallableBare", "CallableEll", "type[int]", "typing.Type", "Box", "Box[int]", "Box[T]", "NoHints",
             "VarHints", "KwOnly", "IVar", "Annotated[int]", "Annotated[list[date]]", "Empty", "WithAny", "InitHints"}
\* positions whose value must come back untouched
PassThroughNames == {"Any", "object", "T_free", "Callable", "CallableBare", "CallableEll", "type[int]", "typing.Type"}
ExtLeaves == {Ext(n) : n \in ExtNames}
ExtRep == {P("int"), P("str"), Cls("D1"), Opt(P("date"))}
FieldOf(a) == [k |-> "fieldof", a |-> a]          \* a generated dataclass with one field of type a
TwoVariadic(a, b) == Tup(<<Coll("tuple", "builtin", a), Coll("tuple", "builtin", b)>>)
ExtCtors(S) ==
       {Coll("list", "builtin", a) : a \in S} \cup {Coll("list", "Sequence", a) : a \in S}
  \cup {Coll("tuple", "builtin", a) : a \in S} \cup {Coll("deque", "builtin", a) : a \in S}
  \cup {Map("builtin", P("str"), a) : a \in S} \cup {Map("Mapping", P("str"), a) : a \in S}
  \cup {Tup(<<a, P("int")>>) : a \in S} \cup {TwoVariadic(a, P("int")) : a \in S}
  \cup {Opt(a) : a \in S} \cup {Un("Union", <<P("int"), a>>) : a \in S \ {P("int")}}
  \* (earlier members that reject with InvalidOperation / ZeroDivisionError / re.error, not ValueError or TypeError)
  \cup {Un("Union", <<P(n), a>>) : n \in {"Decimal", "Fraction", "Pattern"}, a \in S \cap {Ext("Any"), Ext("T_free"), Ext("object")}}
  \cup {FieldOf(a) : a \in S}
ExtDepth1 == ExtLeaves \cup ExtCtors(ExtLeaves \cup ExtRep)
ExtMid == IF Profile = "ext_quick"
          THEN {Coll("list", "builtin", Ext("Any")), Map("builtin", P("str"), Ext("T_free")), FieldOf(Ext("Callable")),
                Opt(Ext("Box[int]")), Coll("tuple", "builtin", Ext("object")), FieldOf(Ext("list"))}
          ELSE ExtCtors(ExtLeaves)
ExtUniverse == ExtDepth1 \cup ExtCtors(ExtMid)

VARIABLES T, phase
vars == <<T, phase>>
Init == T \in (IF Profile \in {"ext_quick", "ext_full"} THEN ExtUniverse ELSE Universe) /\ phase = "emit"
Step == phase = "emit" /\ phase' = "done" /\ T' = T /\ (Emit => PrintT(ToJson(T)))
Spec == Init /\ [][Step]_vars

\* model-level sanity of the universe and of the helpers the trace specs rely on
StripIdempotent == Strip(Strip(T)) = Strip(T)
RECURSIVE WellFormed(_)
WellFormed(t) ==
  CASE t.k = "coll" -> (SetLike(t.c) => Hashable(t.a)) /\ WellFormed(t.a)
    [] t.k = "map" -> Hashable(t.ka) /\ WellFormed(t.ka) /\ WellFormed(t.va)
    [] t.k \in {"tup", "union"} -> \A i \in 1..Len(t.xs) : WellFormed(t.xs[i])
    [] t.k \in Wrappers -> WellFormed(t.a)
    [] OTHER -> TRUE
UniverseWellFormed == WellFormed(T)
EmitDefs == PrintT(ToJson([defs |-> Defs]))
=============================================================================
