---------------------------- MODULE Future_Trace ----------------------------
(* Code -> spec: recorded applications of the real future.transform.  Each     *)
(* event carries the input AST, the AST of the returned string, the AST after  *)
(* a second application and the verdict of evaluating both strings in Python.  *)
EXTENDS Future, IOUtils

Log == ndJsonDeserialize(IOEnv.TRACE_FILE)
VARIABLE l

Clause(ev) ==
  IF ev.raised # "" THEN "TransformRaised"
  ELSE IF ~SemPreserved(ev.ein, ev.eout) THEN "SemPreserved"
  ELSE IF ~NoBitOrLeft(ev.ein, ev.eout) THEN "NoBitOrLeft"
  ELSE IF ~Fixpoint(ev.eout, ev.eout2) THEN "Fixpoint"
  ELSE IF ~Identity(ev.ein, ev.eout) THEN "IdentityWhenNothingToDo"
  ELSE IF ~FormAsDocumented(ev.ein, ev.eout) THEN "FormAsDocumented"
  ELSE IF IsAnnotation(ev.ein) /\ ev.evaleq = "differ" THEN "EvaluatesToSameStructure"
  ELSE ""

TraceInit == l = 1 /\ e = NoneE /\ out = NoneE /\ phase = "-"
TraceNext ==
  /\ l <= Len(Log)
  /\ l' = l + 1
  /\ LET ev == Log[l] c == Clause(ev) IN
     /\ (IF c = "" THEN TRUE ELSE PrintT(ToJson([rej |-> l, clause |-> c])))
     /\ (IF ev.raised = "" /\ ev.eout # Tr(ev.ein) THEN PrintT(ToJson([drift |-> l])) ELSE TRUE)
  /\ UNCHANGED vars
TraceSpec == TraceInit /\ [][TraceNext]_<<vars, l>>
Consumed == PrintT(ToJson([consumed |-> TLCGet("stats").diameter - 1]))
=============================================================================
