---- MODULE MC_Carriers ----
EXTENDS Carriers
PoolTexts == {"1", "abc", "[1,2]", "(1, 2)", "null", "ab"}
JsonTbl == [x \in PoolTexts |-> CASE x = "1" -> "int1" [] x = "[1,2]" -> "list12" [] x = "null" -> "none" [] OTHER -> "notjson"]
LitTbl == [x \in PoolTexts |-> x \in {"1", "[1,2]", "(1, 2)"}]
====
