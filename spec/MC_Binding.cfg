SPECIFICATION Spec
CONSTANTS
  MaxParams = 4
  MaxExtraPos = 2
  Extras = {"x1", "x2"}
  Matrix = "code"
  ElseKey = FALSE
  NameKeys = "named"
  Unannotated = FALSE
  Emit = FALSE
INVARIANT Refines
INVARIANT Rejects
CHECK_DEADLOCK FALSE
