SPECIFICATION Spec
CONSTANTS
  MaxParams = 4
  MaxExtraPos = 2
  Extras = {"x1", "x2"}
  Matrix = "pinned"
  ElseKey = FALSE
  NameKeys = "named"
  Unannotated = FALSE
  Emit = FALSE
