SPECIFICATION Spec
CONSTANTS
  MaxHist = 3
  Names = {"A", "B"}
  MaxFields = 1
  ReleaseAlways = TRUE
  SeesImplicitSlots = TRUE
  Emit = FALSE
INVARIANT NeverRaises
INVARIANT StackEmptyBetweenDecorations
INVARIANT SlotFormula
CHECK_DEADLOCK FALSE
