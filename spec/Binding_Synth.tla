---- MODULE Binding_Synth ----
(* Table synthesis: for each flag row, which of the 17 binders route every argument correctly. *)
EXTENDS Binding
AllFlags == {<<a, b, c, d, e>> : a \in BOOLEAN, b \in BOOLEAN, c \in BOOLEAN, d \in BOOLEAN, e \in BOOLEAN}
ASSUME \A f \in AllFlags : PrintT(<<f, "pinned", PinnedMatrix(f), "code", CodeMatrix(f), "good", GoodBinders(f)>>)
====
