------------------------------ MODULE Dispatch ------------------------------
(***************************************************************************)
(* typelib.py.inspection: the predicate / accessor family (C17).           *)
(*                                                                         *)
(* Every predicate is a *definition over primitive facts* about an object, *)
(* extracted at check time from the interpreter with the standard library  *)
(* only (typing.get_origin/get_args, issubclass against ABCs and bases,    *)
(* dataclasses / typing / inspect helpers) -- never through typelib:       *)
(*                                                                         *)
(*   f.isclass        the annotation resolves to a class (after NewType,   *)
(*                    alias, ClassVar/Final resolution, typing origin and  *)
(*                    the documented abstract -> builtin map)              *)
(*   f.sub[b]         issubclass(resolved class, b) for each named base b  *)
(*   f.isunion f.isliteral f.isfinal f.isclassvar f.isnone f.isforwardref  *)
(*   f.hasnone f.nargs f.lastellipsis f.origin f.istypeddict f.hasfields   *)
(*   f.userclass f.direct[b]  (issubclass of the object itself, unresolved)*)
(*   f.originsubtuple  the typing origin is a strict subclass of tuple     *)
(*   f.deferred       the NewType / alias / Final / ClassVar chain ends in  *)
(*                    a string-valued alias (resolved later, by reference) *)
(*   f.stdlibtbl f.builtintbl  per member other than None of a union (or   *)
(*                    for the object itself): "T"/"F" is the NewType-      *)
(*                    resolved class in the documented table, "?" no class *)
(*                                                                         *)
(* Def(p, f) is "T" / "F" / "?" (outside the asserted domain).             *)
(***************************************************************************)
EXTENDS Naturals, Sequences, FiniteSets, TLC

B(x) == IF x THEN "T" ELSE "F"

\* predicates of the form "the resolved class is a subclass of base b"
SubBase(p) ==
  CASE p = "isdatetype" -> "date" [] p = "isdatetimetype" -> "datetime" [] p = "istimetype" -> "time"
    [] p = "istimedeltatype" -> "timedelta" [] p = "isdecimaltype" -> "Decimal" [] p = "isfractiontype" -> "Fraction"
    [] p = "isuuidtype" -> "UUID" [] p = "isiterabletype" -> "Iterable" [] p = "isiteratortype" -> "Iterator"
    [] p = "istupletype" -> "tuple" [] p = "iscollectiontype" -> "Collection" [] p = "ismappingtype" -> "Mapping"
    [] OTHER -> ""

\* predicates that test the object itself (no resolution): asserted for plain classes only
DirectBase(p) ==
  CASE p = "isenumtype" -> "Enum" [] p = "isstringtype" -> "str" [] p = "isnumbertype" -> "Number"
    [] p = "isintegertype" -> "int" [] p = "isfloattype" -> "float" [] p = "ispatterntype" -> "Pattern"
    [] p = "ispathtype" -> "PurePath" [] p = "istexttype" -> "text" [] p = "isbytestype" -> "byteslike"
    [] OTHER -> ""

IsFixedTuple(f) == f.origin = "tuple" /\ f.nargs > 0 /\ ~f.lastellipsis
IsNamedTuple(f) == f.isclass /\ f.plainclass /\ f.sub["tuple"] /\ f.hasfields
IsSpecialForm(f) == f.isunion \/ f.isliteral \/ f.isfinal \/ f.isclassvar \/ f.isforwardref

\* predicates that look at the outermost form only
OuterForm == {"isuniontype", "isoptionaltype", "isliteral", "isfinal", "isclassvartype", "isnonetype", "isforwardref", "istypealiastype"}
Def(p, f) ==
  \* an annotation that ends in a string-valued alias resolves to nothing yet (a deferred reference): only its outer form is asserted
  IF f.deferred /\ p \notin OuterForm THEN "?"
  ELSE IF SubBase(p) # "" THEN (IF f.isclass THEN B(f.sub[SubBase(p)]) ELSE "?")
  ELSE IF DirectBase(p) # "" THEN (IF f.plainclass THEN B(f.direct[DirectBase(p)]) ELSE "?")
  ELSE CASE p = "issequencetype" ->
              (IF ~f.isclass THEN "?" ELSE IF f.sub["Sequence"] THEN "T" ELSE IF ~f.sub["Collection"] THEN "F" ELSE "?")
         [] p = "isuniontype"    -> B(f.isunion)
         [] p = "isoptionaltype" -> B((f.isunion \/ f.isliteral) /\ f.hasnone)
         [] p = "isliteral"      -> (IF f.isforwardref THEN "?" ELSE B(f.isliteral))
         [] p = "isfinal"        -> B(f.isfinal)
         [] p = "isclassvartype" -> B(f.isclassvar)
         [] p = "isnonetype"     -> B(f.isnone)
         [] p = "isforwardref"   -> B(f.isforwardref)
         [] p = "istypeddict"    -> B(f.istypeddict)
         [] p = "isnamedtuple"   -> B(IsNamedTuple(f))
         \* a parameterised generic named tuple (origin a strict subclass of tuple) is outside the documented domain
         [] p = "isfixedtupletype" -> (IF f.originsubtuple THEN "?" ELSE B(IsFixedTuple(f)))
         [] p = "isstructuredtype" ->
              (IF IsFixedTuple(f) \/ IsNamedTuple(f) \/ f.istypeddict THEN "T"
               ELSE IF f.isforwardref THEN "?"
               ELSE IF IsSpecialForm(f) THEN "F"
               ELSE IF f.plainclass /\ f.userclass THEN "T"
               ELSE IF f.plainclass /\ f.stdlibexact THEN "F" ELSE "?")
         \* membership in the library's documented tables of builtin / standard-library classes (after NewType resolution);
         \* a union is a member iff every member other than None is (None itself is in both tables, wherever it is declared)
         [] p \in {"isstdlibtype", "isbuiltintype"} ->
              (LET ms == IF p = "isstdlibtype" THEN f.stdlibtbl ELSE f.builtintbl IN
               IF \E i \in 1..Len(ms) : ms[i] = "?" THEN "?"
               ELSE IF p = "isbuiltintype" /\ f.isunion THEN "?"          \* documented for classes and NewTypes only
               ELSE B(\A i \in 1..Len(ms) : ms[i] = "T"))
         [] p = "isfrozendataclass" -> B(f.frozen)
         [] p = "istypealiastype" -> B(f.isalias)
         [] OTHER -> "?"

(********************* the two ordered dispatch tables *********************)
(* unmarshals/api.py _HANDLERS and marshals/api.py _HANDLERS, transcribed  *)
(* row by row: the first row whose test holds for the *unwrapped* type of  *)
(* a node selects the routine class; no row = the structured routine.      *)
(* Implementation-shaped (no listed property names a routine class): a     *)
(* disagreement with the code is reported as drift.                        *)
URows == << <<"isforwardref", "Delayed">>, <<"isunresolvable", "NoOp">>, <<"isnonetype", "NoneType">>, <<"isliteral", "Literal">>,
            <<"isuniontype", "Union">>, <<"isenumtype", "Enum">>, <<"isdatetimetype", "DateTime">>, <<"isdatetype", "Date">>,
            <<"istimetype", "Time">>, <<"istimedeltatype", "TimeDelta">>, <<"isuuidtype", "UUID">>, <<"ispatterntype", "Pattern">>,
            <<"ispathtype", "Path">>, <<"isdecimaltype", "Decimal">>, <<"isfractiontype", "Fraction">>, <<"isnumbertype", "Number">>,
            <<"isstringtype", "String">>, <<"isbytestype", "Bytes">>, <<"istypeddict", "StructuredType">>, <<"istypedtuple", "StructuredType">>,
            <<"isnamedtuple", "StructuredType">>, <<"isfixedtupletype", "FixedTuple">>, <<"sub&ismappingtype", "SubscriptedMapping">>,
            <<"sub&isiteratortype", "SubscriptedIterator">>, <<"sub&isiterabletype", "SubscriptedIterable">>, <<"ismappingtype", "Mapping">>,
            <<"isiteratortype", "NoOp">>, <<"isiterabletype", "Iterable">> >>
MRows == << <<"isforwardref", "Delayed">>, <<"isunresolvable", "NoOp">>, <<"isnonetype", "NoneType">>, <<"isliteral", "Literal">>,
            <<"isuniontype", "Union">>, <<"isenumtype", "Enum">>, <<"isdatetimetype", "DateTime">>, <<"isdatetype", "Date">>,
            <<"istimetype", "Time">>, <<"istimedeltatype", "TimeDelta">>, <<"isuuidtype", "UUID">>, <<"ispatterntype", "Pattern">>,
            <<"ispathtype", "Path">>, <<"isdecimaltype", "Decimal">>, <<"isfractiontype", "Fraction">>, <<"isintegertype", "Integer">>,
            <<"isfloattype", "Float">>, <<"isstringtype", "String">>, <<"isbytestype", "Bytes">>, <<"istypeddict", "StructuredType">>,
            <<"istypedtuple", "StructuredType">>, <<"isnamedtuple", "StructuredType">>, <<"isfixedtupletype", "FixedTuple">>,
            <<"sub&ismappingtype", "SubscriptedMapping">>, <<"sub&isiterabletype", "SubscriptedIterable">>, <<"ismappingtype", "Mapping">>,
            <<"isiterabletype", "Iterable">> >>

\* a test as the dispatch sees it: total ("T" / "F" / "?"), the issubclass family answers False for what is no class
Test(p, f) ==
  CASE p = "isunresolvable" -> B(f.unresolvable)
    [] p = "istypedtuple"   -> B(f.plainclass /\ f.sub["tuple"] /\ f.hasannotations)
    [] p \in {"sub&ismappingtype", "sub&isiteratortype", "sub&isiterabletype"} ->
         (IF ~f.subscripted THEN "F"
          ELSE LET q == (CASE p = "sub&ismappingtype" -> "ismappingtype" [] p = "sub&isiteratortype" -> "isiteratortype" [] OTHER -> "isiterabletype") IN
               IF Def(q, f) = "?" THEN "F" ELSE Def(q, f))
    [] OTHER -> (IF Def(p, f) # "?" THEN Def(p, f)
                 ELSE IF DirectBase(p) # "" \/ SubBase(p) # "" THEN "F"        \* _safe_issubclass of a non-class
                 ELSE "?")
RECURSIVE FirstMatch(_, _, _)
FirstMatch(rows, f, i) ==
  IF i > Len(rows) THEN "StructuredType"
  ELSE LET t == Test(rows[i][1], f) IN
       IF t = "T" THEN rows[i][2] ELSE IF t = "?" THEN "?" ELSE FirstMatch(rows, f, i + 1)
HandlerU(f) == FirstMatch(URows, f, 1)
HandlerM(f) == FirstMatch(MRows, f, 1)
\* the two directions of one type are handled by the two halves of one routine pair
Paired(u, m) == \/ u = m
                \/ u = "Number" /\ m \in {"Integer", "Float"}
                \/ u = "SubscriptedIterator" /\ m = "SubscriptedIterable"
                \/ u \in {"?"} \/ m \in {"?"}
HandlersPaired(f) == Paired(HandlerU(f), HandlerM(f)) \/ (HandlerU(f) = "NoOp" /\ HandlerM(f) = "Iterable")   \* bare iterators

\* the statement's side conditions on observed answers
Verdict(p, f, ans, again) ==
  IF Def(p, f) = "?" THEN ""
  ELSE IF ans = "raised" THEN "NeverRaisesInDomain"
  ELSE IF ans # Def(p, f) THEN "AgreesWithRuntime"
  ELSE IF again # ans THEN "StableAcrossCalls"
  ELSE ""
=============================================================================
