------------------------------ MODULE Dispatch ------------------------------
(***************************************************************************)
(* typelib.py.inspection: the predicate / accessor family (C17).           *)
(*                                                                         *)
(* Every predicate is a *definition over primitive facts* about an object, *)
(* extracted at check time from the interpreter with the standard library  *)
(* only (typing.get_origin/get_args, issubclass against ABCs and bases,    *)
(* dataclasses / typing / inspect helpers) -- never through typelib:       *)
(*                                                                         *)
(*   f.isclass        the annotation resolves to a class (after NewType,   *)
(*                    alias, ClassVar/Final resolution, typing origin and  *)
(*                    the documented abstract -> builtin map)              *)
(*   f.sub[b]         issubclass(resolved class, b) for each named base b  *)
(*   f.isunion f.isliteral f.isfinal f.isclassvar f.isnone f.isforwardref  *)
(*   f.hasnone f.nargs f.lastellipsis f.origin f.istypeddict f.hasfields   *)
(*   f.userclass f.direct[b]  (issubclass of the object itself, unresolved)*)
(*   f.originsubtuple  the typing origin is a strict subclass of tuple     *)
(*                                                                         *)
(* Def(p, f) is "T" / "F" / "?" (outside the asserted domain).             *)
(***************************************************************************)
EXTENDS Naturals, Sequences, FiniteSets, TLC

B(x) == IF x THEN "T" ELSE "F"

\* predicates of the form "the resolved class is a subclass of base b"
SubBase(p) ==
  CASE p = "isdatetype" -> "date" [] p = "isdatetimetype" -> "datetime" [] p = "istimetype" -> "time"
    [] p = "istimedeltatype" -> "timedelta" [] p = "isdecimaltype" -> "Decimal" [] p = "isfractiontype" -> "Fraction"
    [] p = "isuuidtype" -> "UUID" [] p = "isiterabletype" -> "Iterable" [] p = "isiteratortype" -> "Iterator"
    [] p = "istupletype" -> "tuple" [] p = "iscollectiontype" -> "Collection" [] p = "ismappingtype" -> "Mapping"
    [] OTHER -> ""

\* predicates that test the object itself (no resolution): asserted for plain classes only
DirectBase(p) ==
  CASE p = "isenumtype" -> "Enum" [] p = "isstringtype" -> "str" [] p = "isnumbertype" -> "Number"
    [] p = "isintegertype" -> "int" [] p = "isfloattype" -> "float" [] p = "ispatterntype" -> "Pattern"
    [] p = "ispathtype" -> "PurePath" [] p = "istexttype" -> "text" [] p = "isbytestype" -> "byteslike"
    [] OTHER -> ""

IsFixedTuple(f) == f.origin = "tuple" /\ f.nargs > 0 /\ ~f.lastellipsis
IsNamedTuple(f) == f.isclass /\ f.plainclass /\ f.sub["tuple"] /\ f.hasfields
IsSpecialForm(f) == f.isunion \/ f.isliteral \/ f.isfinal \/ f.isclassvar \/ f.isforwardref

Def(p, f) ==
  IF SubBase(p) # "" THEN (IF f.isclass THEN B(f.sub[SubBase(p)]) ELSE "?")
  ELSE IF DirectBase(p) # "" THEN (IF f.plainclass THEN B(f.direct[DirectBase(p)]) ELSE "?")
  ELSE CASE p = "issequencetype" ->
              (IF ~f.isclass THEN "?" ELSE IF f.sub["Sequence"] THEN "T" ELSE IF ~f.sub["Collection"] THEN "F" ELSE "?")
         [] p = "isuniontype"    -> B(f.isunion)
         [] p = "isoptionaltype" -> B((f.isunion \/ f.isliteral) /\ f.hasnone)
         [] p = "isliteral"      -> (IF f.isforwardref THEN "?" ELSE B(f.isliteral))
         [] p = "isfinal"        -> B(f.isfinal)
         [] p = "isclassvartype" -> B(f.isclassvar)
         [] p = "isnonetype"     -> B(f.isnone)
         [] p = "isforwardref"   -> B(f.isforwardref)
         [] p = "istypeddict"    -> B(f.istypeddict)
         [] p = "isnamedtuple"   -> B(IsNamedTuple(f))
         \* a parameterised generic named tuple (origin a strict subclass of tuple) is outside the documented domain
         [] p = "isfixedtupletype" -> (IF f.originsubtuple THEN "?" ELSE B(IsFixedTuple(f)))
         [] p = "isstructuredtype" ->
              (IF IsFixedTuple(f) \/ IsNamedTuple(f) \/ f.istypeddict THEN "T"
               ELSE IF f.isforwardref THEN "?"
               ELSE IF IsSpecialForm(f) THEN "F"
               ELSE IF f.plainclass /\ f.userclass THEN "T"
               ELSE IF f.plainclass /\ f.stdlibexact THEN "F" ELSE "?")
         [] p = "isfrozendataclass" -> B(f.frozen)
         [] p = "istypealiastype" -> B(f.isalias)
         [] OTHER -> "?"

\* the statement's side conditions on observed answers
Verdict(p, f, ans, again) ==
  IF Def(p, f) = "?" THEN ""
  ELSE IF ans = "raised" THEN "NeverRaisesInDomain"
  ELSE IF ans # Def(p, f) THEN "AgreesWithRuntime"
  ELSE IF again # ans THEN "StableAcrossCalls"
  ELSE ""
=============================================================================
