SPECIFICATION Spec
CONSTANTS
  FixWhen = "not_both_declared"
INVARIANT UserHookKept
INVARIANT FrozenRestorable
INVARIANT UnfrozenUntouched
CHECK_DEADLOCK FALSE
