SPECIFICATION TraceSpec
CONSTANTS
  Profile = "quick"
  Emit = FALSE
POSTCONDITION Consumed
CHECK_DEADLOCK FALSE
