----------------------------- MODULE Refs_Trace -----------------------------
(* Code -> spec for string references: one event per (text, explicit module, call stack) issued to the real          *)
(* refs.forwardref / refs.evaluate from generated modules: [call, got].  Judged by Refs!RefDenotes (the property)    *)
(* and compared with Refs!ImplDenotes (the transcription: drift only).                                               *)
EXTENDS Naturals, Sequences, TLC, Json, IOUtils
EasyPath == "dotted_loaded"
Probe == "root"
Emit == FALSE
VARIABLES c, phase
R == INSTANCE Refs
Log == ndJsonDeserialize(IOEnv.TRACE_FILE)
VARIABLE l
Same(a, b) == a.k = b.k /\ (a.k = "err" \/ a.t = b.t)         \* which exception class is raised is not compared
TraceInit == l = 1 /\ phase = "done" /\ c \in {x \in R!Call : x.t = R!Name(<<"A">>) /\ x.explicit = "-" /\ x.stack = <<"m1">>}
TraceNext ==
  /\ l <= Len(Log) /\ l' = l + 1 /\ UNCHANGED <<c, phase>>
  /\ LET e == Log[l]
         ref == R!RefDenotes(e.call)
         impl == R!ImplDenotes(e.call) IN
     /\ (IF ~R!IsErr(ref) /\ ~Same(e.got, ref) THEN PrintT(ToJson([rej |-> l, clause |-> "Refs.Transparent", want |-> ref])) ELSE TRUE)
     /\ (IF ~Same(e.got, impl) THEN PrintT(ToJson([drift |-> l, model |-> impl])) ELSE TRUE)
TraceSpec == TraceInit /\ [][TraceNext]_<<l, c, phase>>
Consumed == PrintT(ToJson([consumed |-> TLCGet("stats").diameter - 1]))
=============================================================================
