SPECIFICATION Spec
CONSTANTS
  MaxHist = 3
  Names = {"A", "B"}
  MaxFields = 1
  ReleaseAlways = FALSE
  SeesImplicitSlots = FALSE
  Emit = FALSE
INVARIANT NeverRaises
INVARIANT StackEmptyBetweenDecorations
INVARIANT SlotFormula
CHECK_DEADLOCK FALSE
