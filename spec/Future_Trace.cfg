SPECIFICATION TraceSpec
CONSTANTS
  Depth = 0
  LeafSet = "small"
  Emit = FALSE
POSTCONDITION Consumed
CHECK_DEADLOCK FALSE
