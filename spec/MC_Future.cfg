SPECIFICATION Spec
CONSTANTS
  Depth = 2
  LeafSet = "small"
  Emit = FALSE
INVARIANT InvSem
INVARIANT InvNoBitOr
INVARIANT InvFixpoint
INVARIANT InvIdentity
INVARIANT InvForm
CHECK_DEADLOCK FALSE
