------------------------------- MODULE Scalars -------------------------------
(***************************************************************************)
(* Scalar wire forms (C04): serdes.isoformat / dateparse / unixtime and    *)
(* the scalar (un)marshallers.                                             *)
(*                                                                         *)
(* 1. The routing grid: for a target scalar kind K and an input kind,      *)
(*    which law of the statement applies (Law).  The text/number/date      *)
(*    primitives themselves are uninterpreted; their values arrive as      *)
(*    facts computed with the standard library.                            *)
(* 2. The ISO-8601 duration algebra: a timedelta is the normalised triple  *)
(*    <<days, seconds, micros>>; a duration text is a token record         *)
(*    [neg, y, mo, w, d, h, mi, s, us, hasT, timeparts, dateparts];        *)
(*    WellFormed and Meaning are defined on tokens, RefTokens is the       *)
(*    writer as implemented (sign prefix, days, H/M/S with a fraction).    *)
(*    TLC checks Meaning(RefTokens(t)) = t over a boundary grid.           *)
(***************************************************************************)
EXTENDS Naturals, Integers, Sequences, FiniteSets, TLC

Temporal == {"date", "datetime", "time", "timedelta"}
Numeric == {"int", "float"}
Textual == {"str", "bytes"}

\* which clause of the statement governs unmarshal(K, input of kind ik)
Law(K, ik) ==
  CASE ik = "text"                           -> "canonical_text_parses_back"
    [] ik \in Numeric /\ K \in Temporal      -> "number_is_epoch_seconds_utc"
    [] ik \in Temporal /\ K \in Numeric      -> "temporal_to_number_is_inverse"
    [] ik \in Temporal /\ K \in Textual      -> "temporal_to_text_is_iso8601"
    [] OTHER                                 -> "unasserted"

(************************* duration algebra ********************************)
DAY == 86400
MEG == 1000000
Triple(d, s, us) == <<d, s, us>>                     \* 0 <= s < DAY, 0 <= us < MEG (Python's normal form)

Negate(t) ==
  IF t[2] = 0 /\ t[3] = 0 THEN <<0 - t[1], 0, 0>>
  ELSE IF t[3] = 0 THEN <<0 - t[1] - 1, DAY - t[2], 0>>
  ELSE <<0 - t[1] - 1, DAY - t[2] - 1, MEG - t[3]>>

\* value of a token record; years and months cannot be carried by a timedelta
Meaning(k) ==
  LET secs == k.h * 3600 + k.mi * 60 + k.s
      pos == <<k.w * 7 + k.d + secs \div DAY, secs % DAY, k.us>> IN
  IF k.neg THEN Negate(pos) ELSE pos

WellFormed(k) ==
  /\ k.y = 0 /\ k.mo = 0
  /\ k.dateparts + k.timeparts >= 1                  \* at least one component
  /\ (k.hasT <=> k.timeparts >= 1)                   \* the "T" designator iff a time component follows
  /\ k.us < MEG

\* the writer as implemented in serdes.isoformat for a normalised non-negative triple
PosTokens(t) ==
  LET h == t[2] \div 3600  mi == (t[2] % 3600) \div 60  s == t[2] % 60 IN
  [neg |-> FALSE, y |-> 0, mo |-> 0, w |-> 0, d |-> t[1], h |-> h, mi |-> mi, s |-> s, us |-> t[3],
   hasT |-> TRUE,                                     \* the writer always emits the "T"
   dateparts |-> IF t[1] # 0 THEN 1 ELSE 0,
   timeparts |-> (IF h # 0 THEN 1 ELSE 0) + (IF mi # 0 THEN 1 ELSE 0) + (IF s # 0 \/ t[3] # 0 THEN 1 ELSE 0)]
RefTokens(t) == IF t[1] < 0 THEN [PosTokens(Negate(t)) EXCEPT !.neg = TRUE] ELSE PosTokens(t)

CONSTANTS Days, Secs, Micros          \* boundary grid
VARIABLES t, phase
vars == <<t, phase>>
Init == /\ t \in {Triple(d, s, us) : d \in Days, s \in Secs, us \in Micros} /\ phase = "emit"
Step == phase = "emit" /\ phase' = "done" /\ t' = t
Spec == Init /\ [][Step]_vars

WriterMeansTheValue == Meaning(RefTokens(t)) = t
NegateInvolutive == Negate(Negate(t)) = t
\* the emitted text is well-formed exactly when a time component follows the always-present "T"
WriterWellFormedIffTimePart == WellFormed(RefTokens(t)) <=> RefTokens(t).timeparts >= 1
=============================================================================
