SPECIFICATION Spec
CONSTANTS
  NClasses = 2
  MaxFields = 1
  Kinds = {"opt"}
  Direct = TRUE
  Named = TRUE
  AliasCut = "defer_self"
  GenericCut = "bare_ref"
  ProxyReuse = "never_for_real"
  GetUsesMissing = TRUE
  Emit = FALSE
INVARIANT BuildNeverFails
INVARIANT RoutingCorrect
INVARIANT RootIsReal
INVARIANT ProxiesDenoteTypes
CHECK_DEADLOCK FALSE
