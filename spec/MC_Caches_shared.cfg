SPECIFICATION Spec
CONSTANTS
  MaxOps = 4
  KeyIgnoresDetail = FALSE
  SharesResult = TRUE
  ReturnsInput = FALSE
  Emit = FALSE
INVARIANT HistoryFree
INVARIANT ResultsIndependentOfInputs
CHECK_DEADLOCK FALSE
