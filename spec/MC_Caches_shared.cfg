SPECIFICATION Spec
CONSTANTS
  MaxOps = 4
  KeyIgnoresDetail = FALSE
  SharesResult = TRUE
  Emit = FALSE
INVARIANT HistoryFree
CHECK_DEADLOCK FALSE
