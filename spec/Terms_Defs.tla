---- MODULE Terms_Defs ----
EXTENDS Terms
ASSUME PrintT(ToJson([defs |-> Defs]))
====
