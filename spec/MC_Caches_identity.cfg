SPECIFICATION Spec
CONSTANTS
  MaxOps = 4
  KeyIgnoresDetail = FALSE
  SharesResult = FALSE
  ReturnsInput = TRUE
  Emit = FALSE
INVARIANT HistoryFree
INVARIANT ResultsIndependentOfInputs
CHECK_DEADLOCK FALSE
