SPECIFICATION Spec
CONSTANTS
  NClasses = 2
  MaxFields = 2
  Kinds = {"opt"}
  Direct = TRUE
  Named = TRUE
  AliasCut = "defer_self"
  GenericCut = "defer_self"
  ProxyReuse = "never_for_real"
  GetUsesMissing = TRUE
  Emit = FALSE
INVARIANT BuildNeverFails
INVARIANT RoutingCorrect
INVARIANT RootIsReal
INVARIANT ProxiesDenoteTypes
PROPERTY Terminates
CHECK_DEADLOCK FALSE
