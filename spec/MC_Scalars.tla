---- MODULE MC_Scalars ----
EXTENDS Scalars
PosDays == {0, 1, 6, 7, 8, 13, 14, 365, 400, 999999999}
DaysSet == PosDays \cup {0 - d : d \in PosDays}
SecsSet == {0, 1, 59, 60, 3599, 3600, 3661, 86399}
MicrosSet == {0, 1, 5, 500000, 999999}
====
