SPECIFICATION SimSpec
CONSTANTS
  Profile = "full"
  Emit = TRUE
  MinDepth = 2
  MaxDepth = 3
INVARIANT SimWellFormed
INVARIANT SimStrip
CHECK_DEADLOCK FALSE
