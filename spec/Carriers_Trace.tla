--------------------------- MODULE Carriers_Trace ---------------------------
(* Code -> spec for C14.  Events:                                               *)
(*   "carrier"  the outcomes of unmarshal(T, c(s)) for the eight carriers of    *)
(*              one text: all equal (as value terms) or all raised; the         *)
(*              carrier objects survive (InputIntact) and give the same         *)
(*              outcome when handed over again (Again)                          *)
(*   "load"     serdes.load / strload / decode of one input, with the stdlib    *)
(*              facts about its text (json.loads, ast.literal_eval)             *)
(*   "texteq"   unmarshal(T, json text) = unmarshal(T, literal text)            *)
(*              = unmarshal(T, decoded value)                                   *)
EXTENDS Naturals, Sequences, FiniteSets, TLC, Json, IOUtils

Log == ndJsonDeserialize(IOEnv.TRACE_FILE)
VARIABLE l

AllSame(outs) == \A i \in 1..Len(outs) : outs[i] = outs[1]
AllRaised(outs) == \A i \in 1..Len(outs) : outs[i].k = "raised"

Clause(e) ==
  CASE e.ev = "carrier" ->
         (IF ~e.intact THEN "Carrier.inputNotIntact"
          ELSE IF ~e.again THEN "Carrier.sameObjectAgainDiffers"
          ELSE IF AllRaised(e.outs) THEN ""
          ELSE IF \E i \in 1..Len(e.outs) : e.outs[i].k = "raised" THEN "CarrierFree.someReject"
          ELSE IF ~AllSame(e.outs) THEN "CarrierFree.differ" ELSE "")
    [] e.ev = "load" ->
         (IF ~e.intact THEN "Carrier.inputNotIntact"
          ELSE IF ~e.text THEN (IF e.out.k = "ok" /\ e.same THEN "" ELSE "Load.nonTextNotUntouched")
          ELSE IF e.isjson THEN (IF e.out.k = "ok" /\ e.out.r = e.json THEN "" ELSE "Load.jsonTextNotDecodedAsJson")
          ELSE IF ~e.isliteral THEN
               (IF e.out.k = "raised" THEN "Load.plainTextRaised"
                ELSE IF e.out.r # e.astext THEN "Load.plainTextChanged" ELSE "")
          ELSE (IF e.out.k = "raised" THEN "Load.literalTextRaised" ELSE ""))
    [] e.ev = "texteq" ->
         (IF e.byvalue.k = "raised" THEN ""                 \* the decoded value itself is rejected: nothing to compare
          ELSE IF e.byjson # e.byvalue THEN "TextEqualsValue.json"
          ELSE IF e.byrepr # e.byvalue THEN "TextEqualsValue.literal" ELSE "")
    [] OTHER -> "UNKNOWN-EVENT"

TraceInit == l = 1
TraceNext == /\ l <= Len(Log) /\ l' = l + 1
             /\ LET c == Clause(Log[l]) IN IF c = "" THEN TRUE ELSE PrintT(ToJson([rej |-> l, clause |-> c]))
TraceSpec == TraceInit /\ [][TraceNext]_l
Consumed == PrintT(ToJson([consumed |-> TLCGet("stats").diameter - 1]))
=============================================================================
