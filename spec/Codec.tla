-------------------------------- MODULE Codec --------------------------------
(***************************************************************************)
(* typelib.codec / Codec.encode / Codec.decode / typelib.encode / decode   *)
(* (src/typelib/codecs.py, api.py).                                        *)
(*                                                                         *)
(* Abstract world: types are "J" (JSON-carried) or "B" (bytes-like);       *)
(* encoder configurations are uninterpreted injective functions: the bytes *)
(* produced for wire value w under configuration c are <<c, w>>.           *)
(* State: the @cache table of codec() keyed by its arguments.              *)
(* Reference: the three entry points agree, a codec built for one          *)
(* configuration is never served for another, bytes-like types are carried *)
(* verbatim, decode(encode(v)) = v.                                        *)
(***************************************************************************)
EXTENDS Naturals, Sequences, FiniteSets, TLC

CONSTANTS Cfgs,            \* e.g. {"default", "stdjson", "tag"}
          MaxOps,
          CacheKey,        \* "full": (t, encoder, decoder, ...) as written;  "no_coder": encoder/decoder left out of the key
          TopLevelBytes,   \* "verbatim": typelib.encode/decode carry bytes-like types verbatim;  "coded": they run the encoder
          IdentityWhen     \* "bytes": identity coder iff the type is bytes-like;  "bytes_default": only with the default encoder

Types == {"J", "B"}
Wire(t, v) == <<"wire", t, v>>                 \* marshal(v, t=T); for "B" the value itself
Enc(c, w) == <<c, w>>                          \* injective per configuration
Values == {"v1", "v2"}
Raw(v) == <<"raw", v>>                        \* the value itself, carried verbatim

VARIABLES cache,      \* function: cache key |-> configuration the stored Codec was built with
          ops, last
vars == <<cache, ops, last>>

Key(t, c) == IF CacheKey = "full" THEN <<t, c>> ELSE <<t>>
UsesIdentity(t, c) == t = "B" /\ (IdentityWhen = "bytes" \/ c = "default")

\* codec(t, encoder=c): cache hit returns the stored object (built with some configuration)
BuiltWith(t, c) == IF Key(t, c) \in DOMAIN cache THEN cache[Key(t, c)] ELSE c

CodecEncode(t, c, v) == LET cc == BuiltWith(t, c) IN IF UsesIdentity(t, cc) THEN Raw(v) ELSE Enc(cc, Wire(t, v))
TopEncode(t, c, v)   == IF t = "B" /\ TopLevelBytes = "verbatim" THEN Raw(v) ELSE Enc(c, Wire(t, v))
Composition(t, c, v) == Enc(c, Wire(t, v))     \* encoder(marshal(v, t=T)), asserted for JSON-carried types only

Init == cache = <<>> /\ ops = 0 /\ last = [t |-> "-", c |-> "-", v |-> "-", cm |-> <<>>, tl |-> <<>>, co |-> <<>>]
Use(t, c, v) ==
  /\ ops < MaxOps /\ ops' = ops + 1
  /\ last' = [t |-> t, c |-> c, v |-> v, cm |-> CodecEncode(t, c, v), tl |-> TopEncode(t, c, v), co |-> Composition(t, c, v)]
  /\ cache' = IF Key(t, c) \in DOMAIN cache THEN cache
              ELSE [k \in DOMAIN cache \cup {Key(t, c)} |-> IF k = Key(t, c) THEN c ELSE cache[k]]
Next == \E t \in Types, c \in Cfgs, v \in Values : Use(t, c, v)
Spec == Init /\ [][Next]_vars

Agree == last.t # "-" => /\ last.cm = last.tl
                         /\ (last.t = "J" => last.cm = last.co)
NoCrossTalk == last.t = "J" => last.cm = Enc(last.c, Wire(last.t, last.v))
Verbatim == last.t = "B" => last.cm = Raw(last.v) /\ last.tl = Raw(last.v)
=============================================================================
