-------------------------------- MODULE Wire --------------------------------
(***************************************************************************)
(* Value-level reference layer shared by C01, C03, C06, C13 (and C05, C07).*)
(*                                                                         *)
(* Type terms T and value terms r are the tagged records of DESIGN.md      *)
(* section 2.1/3 (harness/typeterms.py, harness/terms.py).  `defs` is the  *)
(* class table: class name |-> [flavour, module, fields <<name, T, dflt>>].*)
(*                                                                         *)
(*   Conf(T, r, defs, p)  structural conformance with named clauses (C03)  *)
(*   Exact(T, r, defs)    r is made of exactly the annotated classes (C13) *)
(*   IsWire(w)            JSON-compatible plain data, exact builtins (C06) *)
(*   Strip(T)             wrappers removed at every position (C11)         *)
(***************************************************************************)
EXTENDS Naturals, Sequences, FiniteSets, TLC

\* ("noinit": a dataclass field declared with field(init=False, default=..); "annotated": Annotated[X, ..])
Wrappers == {"newtype", "alias", "salias", "final", "classvar", "noinit", "annotated"}
IsNoneT(T) == T.k = "prim" /\ T.n = "NoneType"

\* --- which value terms are instances of a primitive kind (Python isinstance semantics) -------------
IsaPrim(n, r) ==
  CASE n = "int"       -> r.k \in {"int", "bool"} \/ (r.k = "enum" /\ r.mix = "int")
    [] n = "bool"      -> r.k = "bool"
    [] n = "float"     -> r.k = "float"
    [] n = "str"       -> r.k = "str" \/ (r.k = "enum" /\ r.mix = "str")
    [] n = "bytes"     -> r.k = "bytes"
    [] n = "bytearray" -> r.k = "bytearray"
    [] n = "Decimal"   -> r.k = "sc" /\ r.c = "Decimal"
    [] n = "Fraction"  -> r.k = "sc" /\ r.c = "Fraction"
    [] n = "UUID"      -> r.k = "sc" /\ r.c = "UUID"
    [] n = "PurePosixPath" -> r.k = "sc" /\ r.c = "Path" /\ r.cls \in {"PurePosixPath", "PosixPath"}
    [] n = "Path"      -> r.k = "sc" /\ r.c = "Path" /\ r.cls = "PosixPath"
    [] n = "Pattern"   -> r.k = "sc" /\ r.c = "Pattern"
    [] n = "date"      -> r.k \in {"date", "dt"}
    [] n = "datetime"  -> r.k = "dt"
    [] n = "time"      -> r.k = "time"
    [] n = "timedelta" -> r.k = "td"
    [] n = "NoneType"  -> r.k = "none"
    [] OTHER -> FALSE

ExactCls(n) == CASE n = "PurePosixPath" -> "PurePosixPath" [] n = "Path" -> "PosixPath" [] OTHER -> n

\* Literal membership with Python == (True == 1, 1 == 1.0 are not distinguished on purpose)
LitEq(v, r) == (v.k = r.k /\ (v.k = "none" \/ v.s = r.s))
               \/ (v.k \in {"int", "bool"} /\ r.k \in {"int", "bool"} /\
                   (IF v.k = "bool" THEN (IF v.s = "True" THEN "1" ELSE "0") ELSE v.s)
                   = (IF r.k = "bool" THEN (IF r.s = "True" THEN "1" ELSE "0") ELSE r.s))

FirstBad(s) == IF \E i \in 1..Len(s) : s[i] # "" THEN s[CHOOSE i \in 1..Len(s) : s[i] # "" /\ \A j \in 1..(i-1) : s[j] = ""] ELSE ""

FieldVal(r, f) == IF \E i \in 1..Len(r.fv) : r.fv[i][1] = f
                  THEN r.fv[CHOOSE i \in 1..Len(r.fv) : r.fv[i][1] = f][2] ELSE [k |-> "missing"]
\* TypedDict instances are plain dicts: keys are str value terms
DictVal(r, f) == IF \E i \in 1..Len(r.kv) : r.kv[i][1].k = "str" /\ r.kv[i][1].s = f
                 THEN r.kv[CHOOSE i \in 1..Len(r.kv) : r.kv[i][1].k = "str" /\ r.kv[i][1].s = f][2]
                 ELSE [k |-> "missing"]

\* Conf returns "" when r conforms to T, else the path of the first failing clause.
\* exact = TRUE additionally demands exactly the annotated runtime class at every position.
RECURSIVE Conf(_, _, _, _, _)
Conf(T, r, defs, p, exact) ==
  CASE T.k = "prim" ->
         IF ~IsaPrim(T.n, r) THEN p \o ".cls"
         ELSE IF exact /\ r.cls # ExactCls(T.n) THEN p \o ".exactcls" ELSE ""
    [] T.k = "enum" ->
         IF r.k = "enum" /\ r.sn = T.e THEN "" ELSE p \o ".enum.member"
    [] T.k = "lit" ->
         IF \E i \in 1..Len(T.vs) : LitEq(T.vs[i], r) THEN "" ELSE p \o ".literal.member"
    [] T.k = "coll" ->
         IF r.k # T.c THEN p \o ".coll.cls"
         ELSE IF exact /\ r.cls # T.c THEN p \o ".coll.exactcls"
         ELSE FirstBad([i \in 1..Len(r.xs) |-> Conf(T.a, r.xs[i], defs, p \o ".elem", exact)])
    [] T.k = "map" ->
         IF r.k # "dict" THEN p \o ".map.cls"
         ELSE IF exact /\ r.cls # "dict" THEN p \o ".map.exactcls"
         ELSE LET kb == FirstBad([i \in 1..Len(r.kv) |-> Conf(T.ka, r.kv[i][1], defs, p \o ".key", exact)]) IN
              IF kb # "" THEN kb
              ELSE FirstBad([i \in 1..Len(r.kv) |-> Conf(T.va, r.kv[i][2], defs, p \o ".value", exact)])
    [] T.k = "tup" ->
         IF r.k # "tuple" THEN p \o ".tup.cls"
         ELSE IF Len(r.xs) # Len(T.xs) THEN p \o ".tup.arity"
         ELSE FirstBad([i \in 1..Len(T.xs) |-> Conf(T.xs[i], r.xs[i], defs, p \o ".item", exact)])
    [] T.k = "union" ->
         IF \E i \in 1..Len(T.xs) : Conf(T.xs[i], r, defs, p, exact) = "" THEN "" ELSE p \o ".union"
    [] T.k = "cls" ->
         LET d == defs[T.c] IN
         IF d.flavour \in {"typeddict", "typeddict_nr", "typeddict_inh", "typeddict_inh2", "typeddict_inh3", "typeddict_te", "typeddict_fn"} THEN
            IF r.k # "dict" THEN p \o ".typeddict.cls"
            ELSE FirstBad([i \in 1..Len(d.fields) |->
                   LET f == d.fields[i] v == DictVal(r, f[1]) IN
                   IF v.k = "missing" THEN (IF d.flavour \notin {"typeddict", "typeddict_te", "typeddict_fn"} /\ f[3] THEN "" ELSE p \o ".typeddict.required")
                   ELSE Conf(f[2], v, defs, p \o ".field", exact)])
         ELSE IF r.k # "obj" \/ r.cls # d.module \o "." \o d.py THEN p \o ".class.cls"
         ELSE FirstBad([i \in 1..Len(d.fields) |->
                   LET f == d.fields[i] v == FieldVal(r, f[1]) IN
                   IF f[2].k = "classvar" THEN ""                 \* class-level: not part of the instance
                   ELSE IF v.k = "missing" THEN p \o ".class.field.missing"
                   ELSE Conf(f[2], v, defs, p \o ".field", exact)])
    [] T.k \in Wrappers -> Conf(T.a, r, defs, p, exact)
    [] OTHER -> ""                                  \* any / object / bare generics: contents passed through

Conforms(T, r, defs) == Conf(T, r, defs, "Conforms", FALSE)
Exact(T, r, defs)    == Conf(T, r, defs, "Exact", TRUE) = ""

\* --- marshalled output ---------------------------------------------------------------------------
WirePrim(w) == w.k \in {"none", "bool", "int", "float", "str"} /\
               w.cls = (CASE w.k = "none" -> "NoneType" [] OTHER -> w.k)
RECURSIVE WireBad(_, _)
WireBad(w, p) ==
  IF WirePrim(w) THEN ""
  ELSE IF w.k = "list" THEN
       (IF w.cls # "list" THEN p \o ".list.exactcls"
        ELSE FirstBad([i \in 1..Len(w.xs) |-> WireBad(w.xs[i], p \o ".elem")]))
  ELSE IF w.k = "dict" THEN
       (IF w.cls # "dict" THEN p \o ".dict.exactcls"
        ELSE IF \E i \in 1..Len(w.kv) : ~WirePrim(w.kv[i][1]) THEN p \o ".dict.key"
        ELSE FirstBad([i \in 1..Len(w.kv) |-> WireBad(w.kv[i][2], p \o ".value")]))
  ELSE p \o ".notjson." \o w.k
IsWire(w) == WireBad(w, "IsWire") = ""

\* --- equality of two wire forms of one type, insensitive to the element order under set types ------
FieldType(d, name) == IF \E i \in 1..Len(d.fields) : d.fields[i][1] = name
                      THEN d.fields[CHOOSE i \in 1..Len(d.fields) : d.fields[i][1] = name][2]
                      ELSE [k |-> "any"]
RECURSIVE WEq(_, _, _, _)
WEq(T, a, b, defs) ==
  IF a = b THEN TRUE
  ELSE CASE T.k \in Wrappers -> WEq(T.a, a, b, defs)
    [] T.k = "coll" ->
         a.k = "list" /\ b.k = "list" /\ Len(a.xs) = Len(b.xs) /\
         (IF T.c \in {"set", "frozenset"}
          THEN (\A i \in 1..Len(a.xs) : \E j \in 1..Len(b.xs) : WEq(T.a, a.xs[i], b.xs[j], defs)) /\
               (\A j \in 1..Len(b.xs) : \E i \in 1..Len(a.xs) : WEq(T.a, a.xs[i], b.xs[j], defs))
          ELSE \A i \in 1..Len(a.xs) : WEq(T.a, a.xs[i], b.xs[i], defs))
    [] T.k = "map" ->
         a.k = "dict" /\ b.k = "dict" /\ Len(a.kv) = Len(b.kv) /\
         \A i \in 1..Len(a.kv) : WEq(T.ka, a.kv[i][1], b.kv[i][1], defs) /\ WEq(T.va, a.kv[i][2], b.kv[i][2], defs)
    [] T.k = "tup" ->
         a.k = "list" /\ b.k = "list" /\ Len(a.xs) = Len(b.xs) /\ Len(a.xs) = Len(T.xs) /\
         \A i \in 1..Len(a.xs) : WEq(T.xs[i], a.xs[i], b.xs[i], defs)
    [] T.k = "union" -> \E m \in 1..Len(T.xs) : WEq(T.xs[m], a, b, defs)
    [] T.k = "cls" ->
         a.k = "dict" /\ b.k = "dict" /\ Len(a.kv) = Len(b.kv) /\
         \A i \in 1..Len(a.kv) : a.kv[i][1] = b.kv[i][1] /\ a.kv[i][1].k = "str" /\
              WEq(FieldType(defs[T.c], a.kv[i][1].s), a.kv[i][2], b.kv[i][2], defs)
    [] OTHER -> FALSE

\* --- reference marshalling: "w is the wire form of the valid value v under T" ----------------------
\* (implementation-shaped: the listed properties do not fix the wire format, so a disagreement is reported as
\* drift, not as a violation; timedelta text is judged by spec/Scalars.tla and left open here)
Builtin(k) == IF k = "none" THEN "NoneType" ELSE k
SamePrim(v, w) == w.k = v.k /\ w.cls = Builtin(v.k) /\ (v.k = "none" \/ w.s = v.s)
IsStr(w, s) == w.k = "str" /\ w.cls = "str" /\ w.s = s
NonClassFields(d) == SelectSeq(d.fields, LAMBDA f : f[2].k # "classvar")
RECURSIVE IsWireOf(_, _, _, _)
IsWireOf(T, v, w, defs) ==
  CASE T.k \in Wrappers -> IsWireOf(T.a, v, w, defs)
    [] T.k = "prim" ->
         (CASE T.n \in {"int", "bool", "float", "str", "NoneType"} -> SamePrim(v, w)
            [] T.n \in {"Decimal", "Fraction", "UUID", "PurePosixPath", "Path", "Pattern", "date"} -> IsStr(w, v.s)
            [] T.n \in {"datetime", "time"} -> IsStr(w, v.s \o v.off)
            [] T.n = "timedelta" -> w.k = "str" /\ w.cls = "str"
            [] OTHER -> TRUE)
    [] T.k = "enum" -> SamePrim(v.val, w)
    [] T.k = "lit" -> SamePrim(v, w)
    [] T.k = "coll" ->
         w.k = "list" /\ w.cls = "list" /\ Len(w.xs) = Len(v.xs) /\
         (IF T.c \in {"set", "frozenset"}
          THEN (\A i \in 1..Len(v.xs) : \E j \in 1..Len(w.xs) : IsWireOf(T.a, v.xs[i], w.xs[j], defs))
          ELSE \A i \in 1..Len(v.xs) : IsWireOf(T.a, v.xs[i], w.xs[i], defs))
    [] T.k = "map" ->
         w.k = "dict" /\ w.cls = "dict" /\ Len(w.kv) = Len(v.kv) /\
         \A i \in 1..Len(v.kv) : IsWireOf(T.ka, v.kv[i][1], w.kv[i][1], defs) /\ IsWireOf(T.va, v.kv[i][2], w.kv[i][2], defs)
    [] T.k = "tup" ->
         w.k = "list" /\ w.cls = "list" /\ Len(w.xs) = Len(T.xs) /\ Len(v.xs) = Len(T.xs) /\
         \A i \in 1..Len(T.xs) : IsWireOf(T.xs[i], v.xs[i], w.xs[i], defs)
    [] T.k = "union" ->
         \E m \in 1..Len(T.xs) : Conf(T.xs[m], v, defs, "", TRUE) = "" /\ IsWireOf(T.xs[m], v, w, defs)
    [] T.k = "cls" ->
         LET d == defs[T.c] IN
         IF v.k = "dict" THEN        \* TypedDict: the keys that are present, in their order
            w.k = "dict" /\ w.cls = "dict" /\ Len(w.kv) = Len(v.kv) /\
            \A i \in 1..Len(v.kv) : SamePrim(v.kv[i][1], w.kv[i][1]) /\ v.kv[i][1].k = "str" /\
                 IsWireOf(FieldType(d, v.kv[i][1].s), v.kv[i][2], w.kv[i][2], defs)
         ELSE LET fs == NonClassFields(d) IN
            w.k = "dict" /\ w.cls = "dict" /\ Len(w.kv) = Len(fs) /\
            \A i \in 1..Len(fs) : IsStr(w.kv[i][1], fs[i][1]) /\ IsWireOf(fs[i][2], FieldVal(v, fs[i][1]), w.kv[i][2], defs)
    [] OTHER -> TRUE

\* --- type-level helpers ---------------------------------------------------------------------------
RECURSIVE Strip(_)
Strip(T) ==
  CASE T.k \in Wrappers -> Strip(T.a)
    [] T.k = "coll"  -> [T EXCEPT !.a = Strip(T.a)]
    [] T.k = "map"   -> [T EXCEPT !.ka = Strip(T.ka), !.va = Strip(T.va)]
    [] T.k \in {"tup", "union"} -> [T EXCEPT !.xs = [i \in 1..Len(T.xs) |-> Strip(T.xs[i])]]
    [] OTHER -> T

RECURSIVE HasBytesLike(_, _, _)
HasBytesLike(T, defs, fuel) ==
  CASE T.k = "prim" -> T.n \in {"bytes", "bytearray"}
    [] T.k \in Wrappers \cup {"coll"} -> HasBytesLike(T.a, defs, fuel)
    [] T.k = "map" -> HasBytesLike(T.ka, defs, fuel) \/ HasBytesLike(T.va, defs, fuel)
    [] T.k \in {"tup", "union"} -> \E i \in 1..Len(T.xs) : HasBytesLike(T.xs[i], defs, fuel)
    [] T.k = "cls" -> fuel > 0 /\ \E i \in 1..Len(defs[T.c].fields) : HasBytesLike(defs[T.c].fields[i][2], defs, fuel - 1)
    [] OTHER -> FALSE
=============================================================================
