--------------------------- MODULE Context_Trace ---------------------------
(* Code -> spec: every operation recorded from a real typelib.ctx.TypeContext  *)
(* must be an operation the reference layer of Context allows.  The write-back *)
(* memo is a hidden variable: it is inferred by the implementation-shaped      *)
(* actions and only compared with the logged dict keys as "drift" (the         *)
(* property declares the memo unobserved).                                     *)
EXTENDS Context, Sequences, IOUtils

Log == ndJsonDeserialize(IOEnv.TRACE_FILE)

VARIABLE l
tvars == <<stored, memo, l>>

Rej(clause, e, want) ==
  PrintT(ToJson([rej |-> l, clause |-> clause, tid |-> e.tid, want |-> want, got |-> e.out, how |-> e.how]))

\* what the operation must report for a reference answer `want`
HowOK(e, want) ==
  CASE e.op = "getitem"  -> IF want = NoKey THEN e.how = "KeyError" ELSE e.how = "value"
    [] e.op = "get"      -> IF want = NoKey THEN e.how = "default"  ELSE e.how = "value"
    [] e.op = "contains" -> e.how = "true"
    [] OTHER -> TRUE

Verdict(e) ==
  LET want == IF e.op = "contains" THEN e.key ELSE LookupRef(stored, e.key) IN
  /\ IF e.out = want THEN TRUE ELSE Rej("LookupRef", e, want)
  /\ IF HowOK(e, want) THEN TRUE ELSE Rej("Signalling", e, want)

Drift(e) ==   \* hidden memo vs logged dict keys: informational only
  LET ks == {e.keys[i] : i \in 1..Len(e.keys)} IN
  IF ks = stored' \cup DOMAIN memo' THEN TRUE
  ELSE PrintT(ToJson([drift |-> l, tid |-> e.tid, model |-> stored' \cup DOMAIN memo', real |-> ks]))

TraceInit == Init /\ l = 1

TraceNext ==
  /\ l <= Len(Log)
  /\ l' = l + 1
  /\ LET e == Log[l] IN
     CASE e.op = "reset"  -> stored' = {} /\ memo' = [x \in {} |-> NoKey]
       [] e.op = "insert" -> Insert(e.key) /\ Drift(e)
       [] e.op \in {"getitem", "get"} -> Verdict(e) /\ Lookup(e.op, e.key) /\ Drift(e)
       [] e.op = "contains" -> Verdict(e) /\ Contains(e.key)

TraceSpec == TraceInit /\ [][TraceNext]_tvars

Consumed == PrintT(ToJson([consumed |-> TLCGet("stats").diameter - 1]))
=============================================================================
