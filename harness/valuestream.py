"""Shared case stream for the value-level properties (C01, C03, C06, C13, C14, C02):
TLC enumerates the type universe (spec/Terms.tla); values are drawn per type from the pools."""
from __future__ import annotations

import copy
import datetime
import decimal
import json
import os
import random
import uuid

from . import tlc
from .terms import Deadline, clear_typelib_caches, project, with_deadline
from .typeterms import Env, values

_CACHE: dict = {}


def universe(profile: str):
    """(defs, type terms, model result) from TLC; the universe is enumerated and checked by the model run."""
    if profile in _CACHE:
        return _CACHE[profile]
    cfg = open(tlc.SPEC_DIR + "/MC_Terms.cfg").read().replace('"quick"', f'"{profile}"')
    res = tlc.must(tlc.run("Terms", cfg_text=cfg, workers=8), "Terms universe")
    emit = tlc.must(tlc.run("Terms", cfg_text=cfg.replace("Emit = FALSE", "Emit = TRUE"), workers=1), "Terms emit")
    types = [p for p in emit.printed if isinstance(p, dict) and "k" in p]
    if len(types) * 2 != emit.distinct:
        raise tlc.MachineryError(f"Terms emit: {len(types)} types for {emit.distinct} states")
    d = tlc.must(tlc.run("Terms_Defs", "Terms_Defs.cfg", workers=1), "Terms defs")
    defs = [p for p in d.printed if isinstance(p, dict) and "defs" in p][0]["defs"]
    types.sort(key=lambda t: json.dumps(t, sort_keys=True))
    if profile == "full":
        # beyond the exhaustive two layers: terms of three and four constructor layers from the type-builder
        # state machine of spec/TermsSim.tla under `tlc -simulate` (seeded, so the sample is reproducible)
        types = types + deep_types(int(os.environ.get("VERIF_SEED") or 0), DEEP_SAMPLE, {json.dumps(t, sort_keys=True) for t in types})
    _CACHE[profile] = (defs, types, res)
    return _CACHE[profile]


DEEP_SAMPLE = 1500
DEEP_INFO = {"simulated_deep_types": 0}


def deep_types(seed: int, n: int, have: set) -> list:
    sim = tlc.must(tlc.run("TermsSim", "TermsSim.cfg", workers=1, simulate="num=400", depth=5, seed=seed + 1, timeout=1800),
                   "TermsSim simulation")
    seen, out = set(have), []
    for p in sim.printed:
        if isinstance(p, dict) and "k" in p:
            key = json.dumps(p, sort_keys=True)
            if key not in seen:
                seen.add(key)
                out.append(p)
    out.sort(key=lambda t: json.dumps(t, sort_keys=True))
    rng = random.Random(seed)
    out = rng.sample(out, min(n, len(out)))
    DEEP_INFO["simulated_deep_types"] = len(out)
    return out


def make_env(defs):
    env = Env(defs, tag="u")
    env.build(None, "m1")
    return env


def out_of(fn, *a, **kw):
    try:
        r = with_deadline(5, fn, *a, **kw)
    except Deadline:
        return {"k": "raised", "e": "NonTermination"}, None
    except RecursionError:
        return {"k": "raised", "e": "RecursionError"}, None
    except Exception as e:
        return {"k": "raised", "e": type(e).__name__}, None
    return {"k": "ok", "r": project(r)}, r


class Unrelated:
    def __init__(self):
        self.zzz = 1


class LyingLen:
    """A sized iterable whose __len__ disagrees with what iteration yields."""

    def __init__(self, items, claims):
        self._items, self._claims = list(items), claims

    def __len__(self):
        return self._claims

    def __iter__(self):
        return iter(self._items)

    def __repr__(self):
        return f"LyingLen({self._items!r}, claims={self._claims})"


class AttrBag(dict):
    """A mapping whose attribute access never fails (a catch-all __getattr__)."""
    __getattr__ = dict.get


def junk_pool(env):
    utc = datetime.timezone.utc
    D1 = env.obj("D1")
    return [
        None, True, 0, 1, -1, 2**70, 1.5, float("inf"), 1e20,
        "", "1", "abc", "1.5", "null", "true", "None", "[1]", "[1, 2]", '["a", "b"]', '{"a": 1}', '{"x": 1, "y": "s"}',
        "(1, 2)", "{1: 2}", "2020-01-01", "2020-01-01T00:00:00+00:00", "12:30:00+05:00", "PT1S", "P1D",
        "12345678-1234-5678-1234-567812345678", " 1 ", "a", "ab", "blue", "a/b",
        b"1", b"abc", b'[1, 2]', bytearray(b"1"), memoryview(b"[1]"),
        [], [1], ["a"], [1, "2", None], [[1, 2]], [("a", 1)], (1, 2), (1,), ("a", 1, "x"), {1, 2}, frozenset({"a"}),
        {}, {"a": 1}, {"x": 1}, {"x": "1", "y": 2}, {"x": 1, "y": "s", "zz": 0}, {"a": "1", "b": "2"}, {1: 2}, {"v": 1, "nxt": {"v": "2"}},
        decimal.Decimal("1.5"), datetime.date(2020, 1, 1), datetime.datetime(2020, 1, 1, tzinfo=utc), datetime.timedelta(days=8),
        uuid.UUID(int=5), D1(a=1, b="s"), D1(a="1", b=2), Unrelated(), object(), iter([1, 2]), (x for x in ["a"]),
        # (appended: ids of the entries above are part of recorded cases)
        LyingLen(["1", "2"], 3), LyingLen(["1", "2", "3"], 2), LyingLen([("a", "1")], 2), LyingLen(["7"], 0), AttrBag(a="1", b="2"),
        # texts that name attributes every class (every Enum class) has
        "__module__", "__doc__", "name", "__members__", "mro",
    ]


def corruptions(w, rng):
    """Single-step structural corruptions of a wire value (plain JSON-like data)."""
    out = []
    if isinstance(w, dict):
        ks = list(w)
        for k in ks[:3]:
            d = dict(w); d.pop(k); out.append(d)                       # field dropped
            d = dict(w); d[str(k) + "_x"] = d.pop(k); out.append(d)    # field renamed
            d = dict(w); d[k] = [d[k]]; out.append(d)                  # nesting changed
            d = dict(w); d[k] = "zz" if not isinstance(d[k], str) else 12.5; out.append(d)   # field retyped
        out.append(list(w.items()))
        out.append(dict(reversed(list(w.items()))))                    # the same members in another order (still valid)
        out.append({**w, "extra": None})
        out.append([w])
    elif isinstance(w, list):
        if w:
            out.append(w[:-1])                                         # element removed
            out.append(w + [w[0]])                                     # element added
            out.append(w[0])                                           # unwrapped
            x = list(w); x[0] = {"zz": x[0]}; out.append(x)            # member retyped
            x = list(w); x[-1] = None; out.append(x)
        out.append([w])                                                # wrapped
        out.append(w + ["zz"])
        out.append({"0": w})
    else:
        out += [[w], {"v": w}, str(w) + "x"]
        if isinstance(w, str):
            out += [w[:-1], w + "Z", w.upper()]
    return out


def raw_instance(T, w, env, defs, depth=0):
    """The wire value w of type T with every class position (outermost ones) turned into an instance of exactly that
    class whose members still hold wire values -- what a caller has who built the object from unvalidated data.
    Returns (value, replaced?)."""
    k = T["k"]
    while k in ("newtype", "alias", "salias", "final", "annotated"):
        T = T["a"]; k = T["k"]
    if depth > 4 or w is None:
        return w, False
    if k == "cls":
        d = defs[T["c"]]
        if d["flavour"].startswith("typeddict") or not isinstance(w, dict):
            return w, False
        init = {f[0] for f in d["fields"] if f[1]["k"] not in ("classvar", "noinit")}
        try:
            return env.obj(T["c"])(**{a: b for a, b in w.items() if a in init}), True
        except Exception:
            return w, False
    if k == "coll" and isinstance(w, list):
        xs = [raw_instance(T["a"], x, env, defs, depth + 1) for x in w]
        return [x for x, _ in xs], any(r for _, r in xs)
    if k == "map" and isinstance(w, dict):
        xs = {a: raw_instance(T["va"], b, env, defs, depth + 1) for a, b in w.items()}
        return {a: x for a, (x, _) in xs.items()}, any(r for _, r in xs.values())
    if k == "tup" and isinstance(w, list) and len(w) == len(T["xs"]):
        xs = [raw_instance(t, x, env, defs, depth + 1) for t, x in zip(T["xs"], w)]
        return [x for x, _ in xs], any(r for _, r in xs)
    if k == "union":
        nn = [m for m in T["xs"] if not (m["k"] == "prim" and m["n"] == "NoneType")]
        if len(nn) == 1:
            return raw_instance(nn[0], w, env, defs, depth + 1)
    return w, False


def fresh(v):
    """Independent copy of an input (junk may contain one-shot iterators: recreate those)."""
    try:
        return copy.deepcopy(v)
    except Exception:
        return v
