"""Shared case stream for the value-level properties (C01, C03, C06, C13, C14, C02):
TLC enumerates the type universe (spec/Terms.tla); values are drawn per type from the pools."""
from __future__ import annotations

import copy
import datetime
import decimal
import json
import os
import random
import uuid

from . import tlc
from .terms import Deadline, clear_typelib_caches, project, with_deadline
from .typeterms import Env, values

_CACHE: dict = {}


def universe(profile: str):
    """(defs, type terms, model result) from TLC; the universe is enumerated and checked by the model run."""
    if profile in _CACHE:
        return _CACHE[profile]
    cfg = open(tlc.SPEC_DIR + "/MC_Terms.cfg").read().replace('"quick"', f'"{profile}"')
    res = tlc.must(tlc.run("Terms", cfg_text=cfg, workers=8), "Terms universe")
    emit = tlc.must(tlc.run("Terms", cfg_text=cfg.replace("Emit = FALSE", "Emit = TRUE"), workers=1), "Terms emit")
    types = [p for p in emit.printed if isinstance(p, dict) and "k" in p]
    if len(types) * 2 != emit.distinct:
        raise tlc.MachineryError(f"Terms emit: {len(types)} types for {emit.distinct} states")
    d = tlc.must(tlc.run("Terms_Defs", "Terms_Defs.cfg", workers=1), "Terms defs")
    defs = [p for p in d.printed if isinstance(p, dict) and "defs" in p][0]["defs"]
    types.sort(key=lambda t: json.dumps(t, sort_keys=True))
    if profile == "full":
        # beyond the exhaustive two layers: terms of three and four constructor layers from the type-builder
        # state machine of spec/TermsSim.tla under `tlc -simulate` (seeded, so the sample is reproducible)
        types = types + deep_types(int(os.environ.get("VERIF_SEED") or 0), DEEP_SAMPLE, {json.dumps(t, sort_keys=True) for t in types})
    _CACHE[profile] = (defs, types, res)
    return _CACHE[profile]


DEEP_SAMPLE = 1500
DEEP_INFO = {"simulated_deep_types": 0}


def deep_types(seed: int, n: int, have: set) -> list:
    sim = tlc.must(tlc.run("TermsSim", "TermsSim.cfg", workers=1, simulate="num=400", depth=5, seed=seed + 1, timeout=1800),
                   "TermsSim simulation")
    seen, out = set(have), []
    for p in sim.printed:
        if isinstance(p, dict) and "k" in p:
            key = json.dumps(p, sort_keys=True)
            if key not in seen:
                seen.add(key)
                out.append(p)
    out.sort(key=lambda t: json.dumps(t, sort_keys=True))
    rng = random.Random(seed)
    out = rng.sample(out, min(n, len(out)))
    DEEP_INFO["simulated_deep_types"] = len(out)
    return out


def make_env(defs):
    env = Env(defs, tag="u")
    env.build(None, "m1")
    return env


def out_of(fn, *a, **kw):
    try:
        r = with_deadline(5, fn, *a, **kw)
    except Deadline:
        return {"k": "raised", "e": "NonTermination"}, None
    except RecursionError:
        return {"k": "raised", "e": "RecursionError"}, None
    except Exception as e:
        return {"k": "raised", "e": type(e).__name__}, None
    return {"k": "ok", "r": project(r)}, r


class Unrelated:
    def __init__(self):
        self.zzz = 1


def junk_pool(env):
    utc = datetime.timezone.utc
    D1 = env.obj("D1")
    return [
        None, True, 0, 1, -1, 2**70, 1.5, float("inf"), 1e20,
        "", "1", "abc", "1.5", "null", "true", "None", "[1]", "[1, 2]", '["a", "b"]', '{"a": 1}', '{"x": 1, "y": "s"}',
        "(1, 2)", "{1: 2}", "2020-01-01", "2020-01-01T00:00:00+00:00", "12:30:00+05:00", "PT1S", "P1D",
        "12345678-1234-5678-1234-567812345678", " 1 ", "a", "ab", "blue", "a/b",
        b"1", b"abc", b'[1, 2]', bytearray(b"1"), memoryview(b"[1]"),
        [], [1], ["a"], [1, "2", None], [[1, 2]], [("a", 1)], (1, 2), (1,), ("a", 1, "x"), {1, 2}, frozenset({"a"}),
        {}, {"a": 1}, {"x": 1}, {"x": "1", "y": 2}, {"x": 1, "y": "s", "zz": 0}, {"a": "1", "b": "2"}, {1: 2}, {"v": 1, "nxt": {"v": "2"}},
        decimal.Decimal("1.5"), datetime.date(2020, 1, 1), datetime.datetime(2020, 1, 1, tzinfo=utc), datetime.timedelta(days=8),
        uuid.UUID(int=5), D1(a=1, b="s"), D1(a="1", b=2), Unrelated(), object(), iter([1, 2]), (x for x in ["a"]),
    ]


def corruptions(w, rng):
    """Single-step structural corruptions of a wire value (plain JSON-like data)."""
    out = []
    if isinstance(w, dict):
        ks = list(w)
        for k in ks[:3]:
            d = dict(w); d.pop(k); out.append(d)                       # field dropped
            d = dict(w); d[str(k) + "_x"] = d.pop(k); out.append(d)    # field renamed
            d = dict(w); d[k] = [d[k]]; out.append(d)                  # nesting changed
            d = dict(w); d[k] = "zz" if not isinstance(d[k], str) else 12.5; out.append(d)   # field retyped
        out.append(list(w.items()))
        out.append({**w, "extra": None})
        out.append([w])
    elif isinstance(w, list):
        if w:
            out.append(w[:-1])                                         # element removed
            out.append(w + [w[0]])                                     # element added
            out.append(w[0])                                           # unwrapped
            x = list(w); x[0] = {"zz": x[0]}; out.append(x)            # member retyped
            x = list(w); x[-1] = None; out.append(x)
        out.append([w])                                                # wrapped
        out.append(w + ["zz"])
        out.append({"0": w})
    else:
        out += [[w], {"v": w}, str(w) + "x"]
        if isinstance(w, str):
            out += [w[:-1], w + "Z", w.upper()]
    return out


def fresh(v):
    """Independent copy of an input (junk may contain one-shot iterators: recreate those)."""
    try:
        return copy.deepcopy(v)
    except Exception:
        return v
