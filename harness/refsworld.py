"""The world of spec/Refs.tla as real modules, and the rendering of its structured texts.

    m1: A, B, Box (with a class Inner declared in its body), `import lib`, `import typing`
    m2: A (another class), C, `import m1`, `import typing`
    lib: Dec                                   (a loaded module that only m1 imports)

Every module has the two functions through which texts are handed to the library:
    issue(text, explicit)            -- the innermost user frame: refs.forwardref(text, module=explicit), refs.evaluate(..)
    relay(other, text, explicit)     -- calls other.issue(..): an outer user frame
"""
from __future__ import annotations

import sys
import types
import typing

NAMES = {"m1": "verif_refs_m1", "m2": "verif_refs_m2", "lib": "verif_refs_lib", "typing": "typing", "ghost": "verif_refs_ghost"}
COMMON = '''
from typelib.py import refs as _refs
def issue(text, explicit):
    return _refs.evaluate(_refs.forwardref(text, module=explicit))
def relay(other, text, explicit):
    return other.issue(text, explicit)
'''
SRC = {
    "lib": "class Dec:\n    pass\n",
    "m1": "import typing\nimport verif_refs_lib\nclass A:\n    pass\nclass B:\n    pass\nclass Box:\n    class Inner:\n        pass\n",
    "m2": "import typing\nimport verif_refs_m1\nclass A:\n    pass\nclass C:\n    pass\n",
}


def build():
    mods = {}
    for k in ("lib", "m1", "m2"):
        m = types.ModuleType(NAMES[k])
        m.__file__ = f"/verif-generated/{NAMES[k]}.py"       # file-backed in the eyes of inspect.getmodule()
        sys.modules[NAMES[k]] = m
        mods[k] = m
    for k in ("lib", "m1", "m2"):
        exec(compile(SRC[k] + COMMON, mods[k].__file__, "exec", dont_inherit=True), mods[k].__dict__)
    return mods


def dispose():
    for k in ("lib", "m1", "m2"):
        sys.modules.pop(NAMES[k], None)


def render_path(p):
    return ".".join(NAMES.get(x, x) if i == 0 else x for i, x in enumerate(p))


def render(t):
    k = t["k"]
    if k == "name":
        return render_path(t["p"])
    if k == "sub":
        return f"list[{render_path(t['p'])}]"
    if k == "qsub":
        return f"typing.Optional[{render_path(t['p'])}]"
    return f"{render_path(t['p'])} | {render_path(t['q'])}"


def tag(o, mods):
    """Object -> the tag Refs.tla uses for it."""
    rev = {v: k for k, v in NAMES.items()}
    if isinstance(o, types.ModuleType):
        return "module:" + rev.get(o.__name__, o.__name__)
    org = typing.get_origin(o)
    if org is list:
        return "list[" + tag(typing.get_args(o)[0], mods) + "]"
    if org in (typing.Union, types.UnionType):
        args = typing.get_args(o)
        if len(args) == 2 and args[1] is type(None):
            return "Optional[" + tag(args[0], mods) + "]"
        return " | ".join(tag(a, mods) for a in args)
    if isinstance(o, type):
        m = rev.get(o.__module__, o.__module__)
        return (m + "." + o.__qualname__) if o.__module__ != "builtins" else o.__qualname__
    return repr(o)[:40]


def observe(call, mods):
    """Issue one call of the model to the real library; returns the `got` term."""
    text = render(call["t"])
    explicit = None if call["explicit"] == "-" else NAMES[call["explicit"]]
    stack = call["stack"]
    try:
        if len(stack) == 1:
            r = mods[stack[0]].issue(text, explicit)
        else:
            r = mods[stack[1]].relay(mods[stack[0]], text, explicit)
    except Exception as e:
        return {"k": "err", "t": type(e).__name__}, text
    return {"k": "obj", "t": tag(r, mods)}, text
