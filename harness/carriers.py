"""Text carriers of spec/Carriers.tla: the same text handed over as str, bytes, bytearray, or a memoryview --
of bytes, of a bytearray, of a window into a larger bytes / bytearray buffer, or a strided (non-contiguous) view.
The window's exporter reads as a different document (["x", <text>]) so that code looking at the exporting object
instead of the view cannot agree with the other carriers."""
from __future__ import annotations

CARRIERS = ["str", "bytes", "bytearray", "mvb", "mvba", "mvwin", "mvwinba", "mvstride"]
PREFIX, SUFFIX = b'["x", ', b"]"


def carry(c, s, errors="strict"):
    if c == "str":
        return s
    b = s.encode("utf-8", errors)
    if c == "bytes":
        return b
    if c == "bytearray":
        return bytearray(b)
    if c == "mvb":
        return memoryview(b)
    if c == "mvba":
        return memoryview(bytearray(b))
    if c == "mvwin":
        return memoryview(PREFIX + b + SUFFIX)[len(PREFIX):len(PREFIX) + len(b)]
    if c == "mvwinba":
        return memoryview(bytearray(PREFIX + b + SUFFIX))[len(PREFIX):len(PREFIX) + len(b)]
    if c == "mvstride":
        return memoryview(bytes(x for ch in b for x in (ch, 0)))[::2]
    raise ValueError(c)


def intact(x, s, errors="strict"):
    """After a call: is the carrier object still usable and does it still hold the text?  (A released view, a
    modified bytearray or exporter count as not intact.)"""
    try:
        if isinstance(x, str):
            return x == s
        b = s.encode("utf-8", errors)
        if isinstance(x, memoryview):
            ok = x.tobytes() == b
            ex = x.obj
            if x.contiguous and len(ex) == len(PREFIX) + len(b) + len(SUFFIX):
                ok = ok and bytes(ex) == PREFIX + b + SUFFIX
            return ok
        return bytes(x) == b
    except ValueError:          # operation forbidden on released memoryview object
        return False
