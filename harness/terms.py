"""The bridge vocabulary: Python values <-> abstract value terms (JSON / TLA+ records).

Rules that keep TLC happy: every term is an object with a string tag "k"; a field name has
one TLA+ type under every tag; scalar payloads are strings; no JSON null, no bare numbers.
"""
from __future__ import annotations

import collections
import dataclasses
import datetime
import decimal
import enum
import fractions
import json
import pathlib
import re
import types
import uuid


def esc(s: str) -> str:
    """Injective, ASCII-only rendering of arbitrary text (TLC strings stay printable)."""
    return s.encode("unicode_escape").decode("ascii")


def unesc(s: str) -> str:
    return s.encode("ascii").decode("unicode_escape")


_GEN = re.compile(r"^verif_[a-z]+\d+_(m\d+)$")


def cname(cls) -> str:
    mod = getattr(cls, "__module__", "")
    m = _GEN.match(mod or "")
    if m:                       # classes synthesised by harness.typeterms: short module tag
        mod = m.group(1)
    qn = getattr(cls, "__qualname__", getattr(cls, "__name__", repr(cls)))
    if mod in ("builtins", "datetime", "decimal", "fractions", "uuid", "collections", "re", "pathlib"):
        return qn
    return f"{mod}.{qn}"


def _off(tz, ref) -> str:
    if tz is None:
        return "naive"
    try:
        o = tz.utcoffset(ref)
    except Exception:
        return "bad"
    if o is None:
        return "naive"
    secs = o.days * 86400 + o.seconds
    sign = "-" if secs < 0 else "+"
    secs = abs(secs)
    out = f"{sign}{secs // 3600:02d}:{secs % 3600 // 60:02d}"
    if secs % 60 or o.microseconds:
        out += f":{secs % 60:02d}.{o.microseconds:06d}"
    return out


def project(v, depth: int = 0):
    """Total projection of a runtime value to a value term."""
    if depth > 60:
        return {"k": "opaque", "cls": "too-deep"}
    cls = type(v)
    c = cname(cls)
    if v is None:
        return {"k": "none", "cls": "NoneType"}
    if isinstance(v, enum.Enum):
        return {"k": "enum", "cls": c, "sn": cls.__name__, "m": v.name,
                "mix": "int" if isinstance(v, int) else "str" if isinstance(v, str) else "",
                "val": project(v.value, depth + 1)}
    if isinstance(v, bool):
        return {"k": "bool", "cls": c, "s": str(bool(v))}
    if isinstance(v, int):
        return {"k": "int", "cls": c, "s": str(int(v))}
    if isinstance(v, float):
        return {"k": "float", "cls": c, "s": repr(float(v))}
    if isinstance(v, str):
        return {"k": "str", "cls": c, "s": esc(str(v))}
    if isinstance(v, bytes):
        return {"k": "bytes", "cls": c, "s": bytes(v).hex()}
    if isinstance(v, bytearray):
        return {"k": "bytearray", "cls": c, "s": bytes(v).hex()}
    if isinstance(v, memoryview):
        return {"k": "memoryview", "cls": c, "s": v.tobytes().hex()}
    if isinstance(v, decimal.Decimal):
        return {"k": "sc", "cls": c, "c": "Decimal", "s": str(v)}
    if isinstance(v, fractions.Fraction):
        return {"k": "sc", "cls": c, "c": "Fraction", "s": str(v)}
    if isinstance(v, uuid.UUID):
        return {"k": "sc", "cls": c, "c": "UUID", "s": str(v)}
    if isinstance(v, pathlib.PurePath):
        return {"k": "sc", "cls": c, "c": "Path", "s": esc(str(v))}
    if isinstance(v, re.Pattern):
        return {"k": "sc", "cls": c, "c": "Pattern", "s": esc(v.pattern if isinstance(v.pattern, str) else repr(v.pattern)),
                "flags": str(int(v.flags))}
    if isinstance(v, datetime.datetime):
        # fold is not part of datetime equality (nor of ISO text): deliberately not projected
        return {"k": "dt", "cls": c, "s": v.replace(tzinfo=None, fold=0).isoformat(), "off": _off(v.tzinfo, v)}
    if isinstance(v, datetime.date):
        return {"k": "date", "cls": c, "s": v.isoformat()}
    if isinstance(v, datetime.time):
        return {"k": "time", "cls": c, "s": v.replace(tzinfo=None, fold=0).isoformat(), "off": _off(v.tzinfo, None)}
    if isinstance(v, datetime.timedelta):
        return {"k": "td", "cls": c, "s": f"{v.days},{v.seconds},{v.microseconds}"}
    if isinstance(v, tuple) and hasattr(cls, "_fields"):
        return {"k": "obj", "cls": c, "flavour": "namedtuple",
                "fv": [[f, project(x, depth + 1)] for f, x in zip(cls._fields, v)]}
    if isinstance(v, list):
        return {"k": "list", "cls": c, "xs": [project(x, depth + 1) for x in v]}
    if isinstance(v, tuple):
        return {"k": "tuple", "cls": c, "xs": [project(x, depth + 1) for x in v]}
    if isinstance(v, (set, frozenset)):
        xs = sorted((project(x, depth + 1) for x in v), key=lambda t: json.dumps(t, sort_keys=True))
        return {"k": "frozenset" if isinstance(v, frozenset) else "set", "cls": c, "xs": xs}
    if isinstance(v, collections.deque):
        return {"k": "deque", "cls": c, "xs": [project(x, depth + 1) for x in v]}
    if isinstance(v, (dict, types.MappingProxyType)):
        return {"k": "dict", "cls": c,
                "kv": [[project(a, depth + 1), project(b, depth + 1)] for a, b in v.items()]}
    if dataclasses.is_dataclass(v) and not isinstance(v, type):
        return {"k": "obj", "cls": c, "flavour": "dataclass",
                "fv": [[f.name, _getattr(v, f.name, depth)] for f in dataclasses.fields(v)]}
    if isinstance(v, (types.GeneratorType, collections.abc.Iterator)):
        return {"k": "iter", "cls": c}
    ann = _annotations(cls)
    if ann and not isinstance(v, type):
        return {"k": "obj", "cls": c, "flavour": "plain",
                "fv": [[f, _getattr(v, f, depth)] for f in ann if not f.startswith("_")]}
    if not isinstance(v, type) and getattr(cls, "__module__", "").startswith("verif_") and hasattr(v, "__dict__") \
            and "__init__" in vars(cls) and getattr(cls.__init__, "__annotations__", None):
        # a generated class whose members are declared by its constructor only: the instance dict is the state
        return {"k": "obj", "cls": c, "flavour": "plain",
                "fv": [[f, project(x, depth + 1)] for f, x in vars(v).items() if not f.startswith("_")]}
    return {"k": "opaque", "cls": c}


def _annotations(cls):
    out = {}
    for k in reversed(getattr(cls, "__mro__", ())):
        out.update(getattr(k, "__annotations__", {}) or {})
    return out


def _getattr(v, name, depth):
    try:
        return project(getattr(v, name), depth + 1)
    except AttributeError:
        return {"k": "missing", "cls": "-"}


def vkey(v) -> str:
    """Canonical string of a value's term (equality of terms incl. runtime classes)."""
    return json.dumps(project(v), sort_keys=True, separators=(",", ":"))


def outcome(fn, *a, **kw):
    """Run fn; the observation is either the projected result or the exception class."""
    try:
        r = fn(*a, **kw)
    except RecursionError:
        return {"k": "raised", "e": "RecursionError"}
    except Exception as e:
        return {"k": "raised", "e": type(e).__name__}
    return {"k": "ok", "r": project(r)}


_CACHES = None


def clear_typelib_caches():
    """Clear every cache_clear()-able memo reachable from the typelib modules."""
    global _CACHES
    import sys
    if _CACHES is None:
        import typelib  # noqa: F401
        import typelib.binding, typelib.codecs, typelib.graph, typelib.serdes  # noqa: F401,E401
        found = {}
        for name, mod in list(sys.modules.items()):
            if not (name == "typelib" or name.startswith("typelib.")) or mod is None:
                continue
            for attr, obj in list(vars(mod).items()):
                if callable(getattr(obj, "cache_clear", None)):
                    found[id(obj)] = obj
        _CACHES = list(found.values())
    for c in _CACHES:
        c.cache_clear()
    return len(_CACHES)


class Deadline(BaseException):
    """A call into the library under test did not return in time (treated as an observation, not a crash).
    BaseException, and re-armed every second, so that a broad `except Exception` inside a loop cannot swallow it."""


HANGS = [0]
MAX_HANGS = 6


def with_deadline(seconds, fn, *a, **kw):
    """Deadline with confirmation: a first alarm is not believed (a full garbage collection over a large heap or
    a cold import can burn seconds of CPU inside an innocent call); the library's memos are cleared, garbage is
    collected and the call is repeated with twice the budget.  Only a second alarm is a hang."""
    try:
        return _with_deadline(seconds, False, fn, *a, **kw)
    except Deadline:
        import gc
        try:
            clear_typelib_caches()
        except Exception:
            pass
        gc.collect()
        return _with_deadline(2 * seconds, True, fn, *a, **kw)


def _with_deadline(seconds, count, fn, *a, **kw):
    """Run fn under a CPU-time alarm (ITIMER_PROF: the time this process actually computes, so a loaded machine
    cannot turn a slow call into a false "non-termination"); pure-Python non-termination surfaces as Deadline.
    After MAX_HANGS hangs in one run further calls are not attempted (each would cost the full
    deadline): they are reported as Deadline immediately -- the run is failing already."""
    import signal
    if HANGS[0] >= MAX_HANGS:
        raise Deadline("skipped: too many hangs in this run")

    def _alarm(signum, frame):
        if count:
            HANGS[0] += 1
        raise Deadline(f"no result after {seconds}s of CPU time")
    old = signal.signal(signal.SIGPROF, _alarm)
    signal.setitimer(signal.ITIMER_PROF, seconds, 1.0)
    try:
        return fn(*a, **kw)
    finally:
        signal.setitimer(signal.ITIMER_PROF, 0)
        signal.signal(signal.SIGPROF, old)
