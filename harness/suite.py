"""Runs the repository's own test suite under harness.suite_recorder and returns what it recorded."""
from __future__ import annotations

import json
import os
import subprocess
import sys

from . import tlc

_CACHE: dict = {}


def repo_root() -> str:
    import typelib
    return os.path.dirname(os.path.dirname(os.path.dirname(os.path.abspath(typelib.__file__))))


def record() -> dict:
    """{'graph': [...], 'marshal': [...]} from one run of the suite of the tree under test (cached per process)."""
    if "rec" in _CACHE:
        return _CACHE["rec"]
    root = repo_root()
    path = os.path.join(tlc.scratch(), "suite_record.json")
    env = dict(os.environ, VERIF_RECORD=path,
               PYTHONPATH=os.pathsep.join([tlc.VERIF, os.path.join(root, "src")] + ([os.environ["PYTHONPATH"]] if os.environ.get("PYTHONPATH") else [])))
    proc = subprocess.run([sys.executable, "-m", "pytest", "-q", "-p", "harness.suite_recorder", "-p", "no:cacheprovider",
                           "--deselect", "tests/unit/py/test_inspection.py::test_origin[type_alias_type]"],
                          cwd=root, env=env, capture_output=True, text=True, timeout=1800)
    if not os.path.exists(path):
        raise tlc.MachineryError("suite recorder produced nothing: " + (proc.stdout + proc.stderr)[-400:])
    with open(path) as fh:
        rec = json.load(fh)
    rec["suite_summary"] = (proc.stdout.strip().splitlines() or [""])[-1]
    _CACHE["rec"] = rec
    return rec
