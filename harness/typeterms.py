"""Type terms <-> real annotations (with synthesised classes in real modules) and value pools.

Type term vocabulary (JSON objects, tag "k"; see DESIGN.md section 3):
  prim(n) enum(e) lit(vs) coll(c, sp, a) map(c, sp, ka, va) tup(xs) union(sp, xs) cls(c)
  newtype(a) alias(a) salias(a) final(a) classvar(a) any object bare(c)
A class table `defs` maps class name -> {"flavour", "module", "fields": [[name, T, has_default], ...]}.
"""
from __future__ import annotations

import collections
import datetime
import decimal
import enum
import fractions
import json
import pathlib
import re
import sys
import types
import typing
import uuid

_COUNTER = [0]
UTC = datetime.timezone.utc


def tz(h, m=0):
    return datetime.timezone(datetime.timedelta(hours=h, minutes=m))


PRIMS = {
    "int": "int", "bool": "bool", "float": "float", "str": "str", "bytes": "bytes", "bytearray": "bytearray",
    "Decimal": "decimal.Decimal", "Fraction": "fractions.Fraction", "UUID": "uuid.UUID",
    "PurePosixPath": "pathlib.PurePosixPath", "Path": "pathlib.Path", "Pattern": "re.Pattern",
    "date": "datetime.date", "datetime": "datetime.datetime", "time": "datetime.time",
    "timedelta": "datetime.timedelta", "NoneType": "None",
}
ENUMS_SRC = '''
class Color(enum.Enum):
    RED = 1
    BLUE = "blue"
class Level(enum.IntEnum):
    LOW = 1
    HIGH = 2
class Tag(str, enum.Enum):
    A = "a"
    NUM = "1"
'''
EXT_SRC = '''
T_free = typing.TypeVar("T_free")
T_bound = typing.TypeVar("T_bound", bound=int)
T_constr = typing.TypeVar("T_constr", int, str)
class Box(typing.Generic[T_free]):
    def __init__(self, v: T_free):
        self.v = v
class NoHints:
    def __init__(self, a, b=2):
        self.a = a
        self.b = b
class Empty:
    pass
class VarHints:
    def __init__(self, host, *aliases, port=80, **options):
        self.host = host
        self.aliases = aliases
        self.port = port
        self.options = options
class KwOnly:
    def __init__(self, a, *, b=2):
        self.a = a
        self.b = b
@dataclasses.dataclass
class IVar:
    a: int
    scale: dataclasses.InitVar[int] = 1
    def __post_init__(self, scale):
        self.a = self.a * scale
class InitHints:
    def __init__(self, a: "int", b: "decimal.Decimal" = None):
        self.a = a
        self.b = b
@dataclasses.dataclass
class WithAny:
    a: typing.Any
    b: object = None
'''
EXT_NAMES = {
    "Any": "typing.Any", "object": "object", "list": "list", "dict": "dict", "tuple": "tuple", "set": "set", "frozenset": "frozenset",
    "typing.List": "typing.List", "typing.Dict": "typing.Dict", "typing.Tuple": "typing.Tuple", "typing.Set": "typing.Set",
    "typing.Mapping": "typing.Mapping", "typing.Sequence": "typing.Sequence", "typing.Iterable": "typing.Iterable",
    "T_free": "T_free", "T_bound": "T_bound", "T_constr": "T_constr",
    "Callable": "typing.Callable[[int], str]", "CallableBare": "typing.Callable", "CallableEll": "typing.Callable[..., int]",
    "type[int]": "type[int]", "typing.Type": "typing.Type[int]", "Box": "Box", "Box[int]": "Box[int]", "Box[T]": "Box[T_free]",
    "NoHints": "NoHints", "VarHints": "VarHints", "KwOnly": "KwOnly", "IVar": "IVar", "Annotated[int]": "typing.Annotated[int, 'meta']",
    "Annotated[list[date]]": "typing.Annotated[list[datetime.date], 'meta']", "Empty": "Empty", "WithAny": "WithAny", "InitHints": "InitHints",
}
COLL_SPELL = {
    ("list", "builtin"): "list[{a}]", ("list", "typing"): "typing.List[{a}]",
    ("list", "Sequence"): "typing.Sequence[{a}]", ("list", "abcSequence"): "collections.abc.Sequence[{a}]",
    ("list", "MutableSequence"): "typing.MutableSequence[{a}]", ("list", "Collection"): "typing.Collection[{a}]",
    ("list", "Iterable"): "typing.Iterable[{a}]", ("list", "abcIterable"): "collections.abc.Iterable[{a}]",
    ("set", "builtin"): "set[{a}]", ("set", "typing"): "typing.Set[{a}]", ("set", "AbstractSet"): "typing.AbstractSet[{a}]",
    ("set", "MutableSet"): "typing.MutableSet[{a}]", ("set", "abcSet"): "collections.abc.Set[{a}]",
    ("frozenset", "builtin"): "frozenset[{a}]", ("frozenset", "typing"): "typing.FrozenSet[{a}]",
    ("deque", "builtin"): "collections.deque[{a}]", ("deque", "typing"): "typing.Deque[{a}]",
    ("tuple", "builtin"): "tuple[{a}, ...]", ("tuple", "typing"): "typing.Tuple[{a}, ...]",
}
MAP_SPELL = {
    ("dict", "builtin"): "dict[{k}, {v}]", ("dict", "typing"): "typing.Dict[{k}, {v}]",
    ("dict", "Mapping"): "typing.Mapping[{k}, {v}]", ("dict", "MutableMapping"): "typing.MutableMapping[{k}, {v}]",
    ("dict", "abcMapping"): "collections.abc.Mapping[{k}, {v}]",
}
CONCRETE = {"list": list, "set": set, "frozenset": frozenset, "deque": collections.deque, "tuple": tuple, "dict": dict}


class Env:
    """Materialises a class table into real modules and renders type terms as source / objects."""

    def __init__(self, defs: dict | None = None, tag: str = "t"):
        _COUNTER[0] += 1
        self.defs = defs or {}
        self.uid = f"{tag}{_COUNTER[0]}"
        self.modules: dict[str, types.ModuleType] = {}
        self.aux: list[str] = []          # NewType / alias definitions appended to the root module
        self.wrappers: dict = {}
        self.auxn = 0
        self.sources: dict[str, str] = {}
        self._built = False
        self.probe = None                 # callable(cls): run right after each class statement of a generated module

    # ---------------------------------------------------------------- rendering
    def modname(self, m: str) -> str:
        # (`modnames` lets a driver give a generated module a name of its choice, e.g. one a standard-library module also has)
        return getattr(self, "modnames", {}).get(m) or f"verif_{self.uid}_{m}"

    def filename(self, m: str) -> str:
        # (`filedir` lets a driver place the generated modules in a directory of its choice, e.g. one whose name contains the
        # library's name)
        return f"{getattr(self, 'filedir', '/verif-generated')}/{self.modname(m)}.py"

    def render(self, t: dict, home: str) -> str:
        """Source text of a type term as seen from module `home`."""
        k = t["k"]
        if k == "prim":
            return PRIMS[t["n"]]
        if k == "enum":
            return t["e"]
        if k == "lit":
            return "typing.Literal[" + ", ".join(repr(lit_value(v)) for v in t["vs"]) + "]"
        if k == "coll":
            return COLL_SPELL[(t["c"], t["sp"])].format(a=self.render(t["a"], home))
        if k == "map":
            return MAP_SPELL[(t["c"], t["sp"])].format(k=self.render(t["ka"], home), v=self.render(t["va"], home))
        if k == "tup":
            return "tuple[" + ", ".join(self.render(x, home) for x in t["xs"]) + "]"
        if k == "union":
            xs = [self.render(x, home) for x in t["xs"]]
            if t["sp"] == "pipe":
                return "(" + " | ".join(xs) + ")"
            if t["sp"] == "Optional":
                rest = [self.render(x, home) for x in t["xs"] if not (x["k"] == "prim" and x["n"] == "NoneType")]
                inner = rest[0] if len(rest) == 1 else "typing.Union[" + ", ".join(rest) + "]"
                return f"typing.Optional[{inner}]"
            return "typing.Union[" + ", ".join(xs) + "]"
        if k == "cls":
            d = self.defs[t["c"]]
            py = d.get("py", t["c"])
            return py if d["module"] == home else f"{self.modname(d['module'])}.{py}"
        if k in ("newtype", "alias", "salias"):
            # one wrapper object per (term, module), as users define an alias once and use it many times:
            # the same term reached on two paths is the same NewType / alias object
            memo_key = (json.dumps(t, sort_keys=True), home)
            if memo_key in self.wrappers:
                return self.wrappers[memo_key]
            self.auxn += 1
            name = f"Aux{self.auxn}"
            self.wrappers[memo_key] = name
            inner = self.render(t["a"], home)
            if k == "newtype":
                self.aux.append((home, f"{name} = typing.NewType({name!r}, {inner})"))
            elif k == "alias":
                self.aux.append((home, f"{name} = typing.TypeAliasType({name!r}, {inner})"))
            else:
                self.aux.append((home, f"{name} = typing.TypeAliasType({name!r}, {inner!r})"))
            return name
        if k == "final":
            return f"typing.Final[{self.render(t['a'], home)}]"
        if k == "classvar":
            return f"typing.ClassVar[{self.render(t['a'], home)}]"
        if k == "annotated":
            return f"typing.Annotated[{self.render(t['a'], home)}, 'meta']"
        if k == "noinit":           # a field option, not a type constructor: see _class_src
            return self.render(t["a"], home)
        if k == "ext":
            return EXT_NAMES[t["n"]]
        if k == "fieldof":
            self.auxn += 1
            name = f"FO{self.auxn}"
            inner = self.render(t["a"], home)
            self.aux.append((home, f"@dataclasses.dataclass\nclass {name}:\n    x: {inner!r}\n"))
            return name
        if k == "srcname":          # a type written with a specific source spelling (e.g. "dt.date")
            return t["src"]
        if k == "any":
            return "typing.Any"
        if k == "object":
            return "object"
        if k == "bare":
            return t["c"]
        raise ValueError(k)

    def _mentions(self, t: dict) -> set:
        k = t["k"]
        if k == "cls":
            return {t["c"]}
        out = set()
        for key in ("a", "ka", "va"):
            if key in t and isinstance(t[key], dict):
                out |= self._mentions(t[key])
        for x in t.get("xs", []) if k in ("tup", "union") else []:
            out |= self._mentions(x)
        return out

    def _class_src(self, name: str, d: dict, defined: set = frozenset()) -> str:
        home = d["module"]
        fl = d["flavour"]
        fields = []
        for f in d["fields"]:
            naux = len(self.aux)
            src = self.render(f[1], home)
            # a field whose type mentions a class that is not defined yet (later in this module, in another
            # module, or the class itself) -- or a NewType/alias, which are defined after the classes -- is
            # written as a string annotation, as users write forward references
            if not self._mentions(f[1]) <= defined or len(self.aux) > naux or _has_wrapper(f[1]):
                src = repr(src)
            fields.append((f[0], src, f[2], f[1]))
        # a 4th component of a field is the source text of its (non-None) default
        dsrc = {f[0]: (f[3] if len(f) > 3 else ("7" if f[1]["k"] == "classvar" else "None")) for f in d["fields"]}
        # a class with a base of the table only declares the fields its base does not have
        base = d.get("base")
        bases = "(" + self.render({"k": "cls", "c": base}, home) + ")" if base else ""       # (module-qualified when the base lives elsewhere)
        if base:
            inherited = {f[0] for f in self.defs[base]["fields"]}
            fields = [f for f in fields if f[0] not in inherited]
        lines = []
        if fl in ("dataclass", "dc_slots", "dc_kwonly", "dc_frozen", "dc_call", "dc_falsy"):
            opts = {"dataclass": "", "dc_slots": "slots=True", "dc_kwonly": "kw_only=True", "dc_frozen": "frozen=True", "dc_call": "",
                    "dc_falsy": ""}[fl]
            lines.append(f"@dataclasses.dataclass({opts})")
            lines.append(f"class {name}{bases}:")
            for fn, src, has_d, T in fields:
                if T["k"] == "noinit":
                    lines.append(f"    {fn}: {src} = dataclasses.field(init=False, default={dsrc[fn]})")
                    continue
                lines.append(f"    {fn}: {src}" + (f" = {dsrc[fn]}" if has_d else ""))
            if fl == "dc_falsy":        # instances are falsy and claim length 0: still records with members
                lines.append("    def __bool__(self):\n        return False\n    def __len__(self):\n        return 0")
            if fl == "dc_call":         # instances can be called: still a structured class
                lines.append("    def __call__(self, *a):\n        return a")
        elif fl == "namedtuple":
            lines.append(f"class {name}(typing.NamedTuple):")
            for fn, src, has_d, T in fields:
                lines.append(f"    {fn}: {src}" + (f" = {dsrc[fn]}" if has_d else ""))
        elif fl in ("typeddict", "typeddict_nr", "typeddict_te"):
            lines.append(f"class {name}({'typing_extensions' if fl == 'typeddict_te' else 'typing'}.TypedDict):")
            for i, (fn, src, has_d, T) in enumerate(fields):
                if fl == "typeddict_nr" and has_d:
                    src = f"typing.NotRequired[{src}]"     # src may itself be a quoted forward reference
                lines.append(f"    {fn}: {src}")
        elif fl == "typeddict_fn":
            # the functional syntax: keys that are Python keywords or no identifiers at all
            items = ", ".join(f"{fn!r}: {src}" for fn, src, has_d, T in fields)
            lines.append(f"{name} = typing.TypedDict({name!r}, {{{items}}})")
        elif fl == "typeddict_inh2":
            # a total body on top of a total=False base: the base's keys stay optional
            lines.append(f"class {name}_base(typing.TypedDict, total=False):")
            lines += [f"    {fn}: {src}" for fn, src, has_d, T in fields if has_d] or ["    pass"]
            lines.append(f"class {name}({name}_base):")
            lines += [f"    {fn}: {src}" for fn, src, has_d, T in fields if not has_d] or ["    pass"]
        elif fl == "typeddict_inh":
            # a total=False body on top of a total base: the base's keys stay required
            lines.append(f"class {name}_base(typing.TypedDict):")
            lines += [f"    {fn}: {src}" for fn, src, has_d, T in fields if not has_d] or ["    pass"]
            lines.append(f"class {name}({name}_base, total=False):")
            lines += [f"    {fn}: {src}" for fn, src, has_d, T in fields if has_d] or ["    pass"]
        elif fl == "plain":
            lines.append(f"class {name}:")
            for fn, src, has_d, T in fields:
                lines.append(f"    {fn}: {src}")
            args = "".join(f", {fn}" + ("=None" if has_d else "") for fn, _, has_d, _ in fields)
            lines.append(f"    def __init__(self{args}):")
            for fn, *_ in fields:
                lines.append(f"        self.{fn} = {fn}")
            if not fields:
                lines.append("        pass")
            lines.append("    def __eq__(self, o): return type(o) is type(self) and vars(o) == vars(self)")
            lines.append("    __hash__ = None")
        elif fl == "plain_mro":
            # a plain annotated class whose members are declared along a three-level chain: the first by the root, the second by
            # the middle class, the others by the class itself (which has the constructor)
            eq = "    def __eq__(self, o): return type(o) is type(self) and vars(o) == vars(self)\n    __hash__ = None"
            lines.append(f"class {name}_root:")
            lines += [f"    {fn}: {src}" for fn, src, has_d, T in fields[:1]] or ["    pass"]
            lines.append(f"class {name}_mid({name}_root):")
            lines += [f"    {fn}: {src}" for fn, src, has_d, T in fields[1:2]] or ["    pass"]
            lines.append(f"class {name}({name}_mid):")
            lines += [f"    {fn}: {src}" for fn, src, has_d, T in fields[2:]]
            args = "".join(f", {fn}" + ("=None" if has_d else "") for fn, _, has_d, _ in fields)
            lines.append(f"    def __init__(self{args}):")
            for fn, *_ in fields:
                lines.append(f"        self.{fn} = {fn}")
            lines.append(eq)
        elif fl == "nt_sub":
            # a class derived from a named tuple that adds only behaviour (no annotation of its own)
            lines.append(f"class {name}_base(typing.NamedTuple):")
            for fn, src, has_d, T in fields:
                lines.append(f"    {fn}: {src}" + (f" = {dsrc[fn]}" if has_d else ""))
            lines.append(f"class {name}({name}_base):")
            lines.append("    __slots__ = ()")
            lines.append("    def label(self):\n        return 'x'")
        elif fl == "typeddict_inh3":
            # three levels: a total root (the first key), a total=False middle (the optional keys), a total leaf (the others):
            # the root's key stays required through the total=False class
            req = [f for f in fields if not f[2]]
            lines.append(f"class {name}_root(typing.TypedDict):")
            lines += [f"    {fn}: {src}" for fn, src, has_d, T in req[:1]] or ["    pass"]
            lines.append(f"class {name}_mid({name}_root, total=False):")
            lines += [f"    {fn}: {src}" for fn, src, has_d, T in fields if has_d] or ["    pass"]
            lines.append(f"class {name}({name}_mid):")
            lines += [f"    {fn}: {src}" for fn, src, has_d, T in req[1:]] or ["    pass"]
        elif fl == "sig":
            # no class-level annotations: the members are the parameters of the constructor, the first
            # positional, the others keyword-only
            lines.append(f"class {name}:")
            args = ""
            for i, (fn, src, has_d, T) in enumerate(fields):
                args += (", *" if i == 1 else "") + f", {fn}: {src}" + (f" = {dsrc[fn]}" if has_d else "")
            lines.append(f"    def __init__(self{args}):")
            for fn, *_ in fields:
                lines.append(f"        self.{fn} = {fn}")
            lines.append("    def __eq__(self, o): return type(o) is type(self) and vars(o) == vars(self)")
            lines.append("    __hash__ = None")
        elif fl == "slots":
            lines.append(f"class {name}:")
            lines.append(f"    __slots__ = {tuple(f[0] for f in fields)!r}")
            for fn, src, has_d, T in fields:
                lines.append(f"    {fn}: {src}")
            args = "".join(f", {fn}" + ("=None" if has_d else "") for fn, _, has_d, _ in fields)
            lines.append(f"    def __init__(self{args}):")
            for fn, *_ in fields:
                lines.append(f"        self.{fn} = {fn}")
            if not fields:
                lines.append("        pass")
            lines.append("    def __eq__(self, o): return type(o) is type(self) and all(getattr(o, s) == getattr(self, s) for s in self.__slots__)")
            lines.append("    __hash__ = None")
        else:
            raise ValueError(fl)
        if len(lines) == 2 and lines[-1].endswith(":"):
            lines.append("    pass")
        if not fields and fl in ("dataclass", "dc_slots", "dc_kwonly", "dc_frozen", "dc_call", "dc_falsy", "namedtuple", "typeddict", "typeddict_nr", "typeddict_te"):
            lines.append("    pass")
        return "\n".join(lines)

    def build(self, root: dict | None = None, root_home: str = "m1"):
        """Generate and import all modules; returns the materialised root annotation (or None)."""
        mods = sorted({d["module"] for d in self.defs.values()} | {root_home})
        bodies = {m: [] for m in mods}
        defined: dict = {m: set() for m in mods}
        for name, d in self.defs.items():
            bodies[d["module"]].append(self._class_src(d.get("py", name), d, frozenset(defined[d["module"]])))
            if self.probe is not None:
                bodies[d["module"]].append(f"__verif_probe__({d.get('py', name)})")
            defined[d["module"]].add(name)
        root_src = self.render(root, root_home) if root is not None else None
        header = ("import datetime as dt\nimport collections, collections.abc, dataclasses, datetime, decimal, enum, fractions, pathlib, re, typing, uuid\n"
                  "import typing_extensions\n")
        # create empty modules first so that cross-module references resolve lazily via attribute access
        for m in mods:
            mod = types.ModuleType(self.modname(m))
            sys.modules[mod.__name__] = mod
            self.modules[m] = mod
        for m in mods:
            imports = "".join(f"import {self.modname(o)}\n" for o in mods if o != m)
            src = header + imports + ENUMS_SRC + EXT_SRC + "\n" + "\n".join(bodies[m]) + "\n"
            self.sources[m] = src
        # aliases / newtypes are defined after the classes of their home module
        for home, line in self.aux:
            self.sources[home] += line + "\n"
        if root_src is not None:
            self.sources[root_home] += f"ROOT = {root_src}\n"
        for m in mods:
            if self.probe is not None:
                self.modules[m].__dict__["__verif_probe__"] = self.probe
            # (the module looks file-backed, so that inspect.getmodule() maps a frame of its code to it, as for user modules)
            self.modules[m].__file__ = self.filename(m)
            exec(compile(self.sources[m], self.filename(m), "exec", dont_inherit=True), self.modules[m].__dict__)
        self._built = True
        self.root_home = root_home
        return self.modules[root_home].__dict__.get("ROOT") if root is not None else None

    def annotation(self, t: dict, home: str | None = None):
        """Materialise one more type term against the already built modules."""
        home = home or self.root_home
        n0 = len(self.aux)
        src = self.render(t, home)
        ns = self.modules[home].__dict__
        for h, line in self.aux[n0:]:
            exec(compile(line, "<verif-aux>", "exec", dont_inherit=True), self.modules[h].__dict__)
        return eval(compile(src, "<verif-type>", "eval", dont_inherit=True), ns)

    def obj(self, name: str, home: str | None = None):
        d = self.defs.get(name)
        m = d["module"] if d else (home or self.root_home)
        return getattr(self.modules[m], d.get("py", name) if d else name)

    def enum(self, name: str, home: str | None = None):
        return getattr(self.modules[home or self.root_home], name)

    def dispose(self):
        for mod in self.modules.values():
            sys.modules.pop(mod.__name__, None)


def _has_wrapper(T) -> bool:
    if T["k"] in ("newtype", "alias", "salias"):
        return True
    return any(_has_wrapper(x) for key in ("a", "ka", "va") if isinstance((x := T.get(key)), dict)) or \
        any(_has_wrapper(x) for x in (T.get("xs") or []) if isinstance(x, dict))


def _accepts_none(T):
    return (T["k"] == "union" and any(x["k"] == "prim" and x["n"] == "NoneType" for x in T["xs"])) or \
           (T["k"] == "prim" and T["n"] == "NoneType") or T["k"] in ("any", "object")


def lit_value(v):
    k = v["k"]
    if k == "none":
        return None
    if k == "bool":
        return v["s"] == "True"
    if k == "int":
        return int(v["s"])
    if k == "str":
        return v["s"]
    raise ValueError(k)


# ------------------------------------------------------------------ value pools
TEXT_POOL = ["null", "1", "None", "ab", "", "[1,2]", "true", '{"a":1}', "2020-01-01", "1.0", "a", "abc", "-7", "True",
             "(1, 2)", "12:30:00+05:00", "PT1S", " 1 ", "\u00e9", "1e3", "nan", "0x10", "a,b",
             "12345678-1234-5678-1234-567812345678"]

LEAF_POOLS = {
    "int": [0, 1, -1, 7, 2**31, -(2**63), 10**30],
    "bool": [True, False],
    "float": [0.0, 1.0, -1.5, 1e300, 5e-324, 0.1, 1e16],
    "str": TEXT_POOL,
    "bytes": [b"", b"ab", b"1", b"\xff\x00"],
    "bytearray": [bytearray(b""), bytearray(b"ab")],
    "Decimal": [decimal.Decimal(s) for s in ("0", "1.50", "-0", "1E+10", "0.1", "-123.456", "1e-30")],
    "Fraction": [fractions.Fraction(1, 3), fractions.Fraction(-7, 2), fractions.Fraction(5), fractions.Fraction(0),
                 fractions.Fraction(3, 2)],
    "UUID": [uuid.UUID(int=0), uuid.UUID("12345678-1234-5678-1234-567812345678"), uuid.UUID(int=2**128 - 1)],
    "PurePosixPath": [pathlib.PurePosixPath(p) for p in ("a/b", "/abs/x", ".", "1", "notes ", " draft/x.txt")],
    "Path": [pathlib.Path(p) for p in ("a/b", "/abs/x", ".", "notes ", " draft.txt", "a\nb")],
    "Pattern": [re.compile(p) for p in ("a+b", "^x$", "[0-9]{2}", "")],
    "date": [datetime.date(1970, 1, 1), datetime.date(2020, 2, 29), datetime.date.min, datetime.date.max,
             datetime.date(1969, 12, 31)],
    "datetime": [datetime.datetime(1970, 1, 1, tzinfo=UTC), datetime.datetime(2020, 2, 29, 12, 30, 15, 999999, tzinfo=tz(5, 30)),
                 datetime.datetime(1999, 12, 31, 23, 59, 59, tzinfo=tz(-3, -30)), datetime.datetime(2021, 6, 1, 0, 0, 0, 1, tzinfo=tz(-8)),
                 datetime.datetime(2020, 11, 1, 1, 30, tzinfo=tz(14), fold=1), datetime.datetime(9999, 12, 31, 23, 59, 59, 999999, tzinfo=UTC),
                 datetime.datetime(1, 1, 1, tzinfo=UTC),
                 # the first / last hours of the calendar at an offset: their UTC instants lie outside year 1..9999
                 datetime.datetime(1, 1, 1, 0, 30, tzinfo=tz(5, 30)), datetime.datetime(9999, 12, 31, 23, 30, 0, 1, tzinfo=tz(-3, -30))],
    "time": [datetime.time(0, 0, tzinfo=UTC), datetime.time(12, 30, tzinfo=tz(5)), datetime.time(23, 59, 59, 999999, tzinfo=tz(-8)),
             datetime.time(1, 2, 3, 4, tzinfo=tz(5, 30))],
    "timedelta": [datetime.timedelta(0), datetime.timedelta(seconds=1), datetime.timedelta(days=7), datetime.timedelta(days=8, seconds=1),
                  datetime.timedelta(days=-1), datetime.timedelta(seconds=59, microseconds=999999), datetime.timedelta(days=400),
                  datetime.timedelta(hours=1, minutes=1), datetime.timedelta(microseconds=5), datetime.timedelta(days=14, hours=3),
                  datetime.timedelta(days=-3, seconds=7),
                  # long durations (float arithmetic anywhere on the way loses their microseconds)
                  datetime.timedelta(days=110000, hours=1, microseconds=1), datetime.timedelta(days=-202304, seconds=6103, microseconds=31295),
                  datetime.timedelta.max],
    "NoneType": [None],
}
ENUM_MEMBERS = {"Color": ["RED", "BLUE"], "Level": ["LOW", "HIGH"], "Tag": ["A", "NUM"]}
HASHABLE_PRIMS = {"int", "bool", "float", "str", "bytes", "Decimal", "Fraction", "UUID", "PurePosixPath", "Path",
                  "date", "datetime", "time", "timedelta", "NoneType"}


def hashable_term(t) -> bool:
    k = t["k"]
    if k == "prim":
        return t["n"] in HASHABLE_PRIMS
    if k in ("enum", "lit"):
        return True
    if k == "tup":
        return all(hashable_term(x) for x in t["xs"])
    if k == "coll":
        return t["c"] in ("frozenset", "tuple") and hashable_term(t["a"])
    if k == "union":
        return all(hashable_term(x) for x in t["xs"])
    if k in ("newtype", "alias", "salias", "final", "classvar", "noinit", "annotated"):
        return hashable_term(t["a"])
    return False


def twin(v):
    """A value that is == v (and hashes alike) but is observably different: exponent, sign of zero, UTC offset."""
    if isinstance(v, decimal.Decimal) and v.is_finite():
        s = str(v)
        if "E" not in s.upper():
            return decimal.Decimal(s + ("0" if "." in s else ".0"))
    if isinstance(v, float) and v == 0.0:
        return -v
    if isinstance(v, (datetime.datetime, datetime.time)) and v.tzinfo is not None and type(v) in (datetime.datetime, datetime.time):
        off = v.utcoffset() if isinstance(v, datetime.datetime) else v.tzinfo.utcoffset(None)
        other = tz(2) if off != datetime.timedelta(hours=2) else tz(-7)
        if isinstance(v, datetime.datetime):
            try:
                return v.astimezone(other)
            except (OverflowError, ValueError):
                return None
        d = datetime.datetime.combine(datetime.date(2000, 1, 2), v).astimezone(other)
        return d.timetz() if d.date() == datetime.date(2000, 1, 2) else None
    return None


def values(t: dict, env: Env, rng, n: int = 4, depth: int = 0) -> list:
    """Up to n valid values of type term t (boundary-biased pools, recursive composition)."""
    k = t["k"]
    if k == "prim":
        pool = LEAF_POOLS[t["n"]]
        return pool if len(pool) <= n else pool[:2] + rng.sample(pool[2:], n - 2)
    if k == "enum":
        E = env.enum(t["e"])
        return [E[m] for m in ENUM_MEMBERS[t["e"]]]
    if k == "lit":
        return [lit_value(v) for v in t["vs"]]
    if k in ("newtype", "alias", "salias", "final", "classvar", "noinit", "annotated"):
        return values(t["a"], env, rng, n, depth)
    if k == "srcname":
        return values(t["as"], env, rng, n, depth)
    if k == "coll":
        inner = values(t["a"], env, rng, 3, depth + 1)
        ctor = CONCRETE[t["c"]]
        outs = [ctor()]
        if inner:
            try:
                outs.append(ctor(inner[:1]))
                outs.append(ctor(inner[:3]))
                if depth == 0 and t["a"]["k"] in ("prim", "enum") and t["c"] in ("list", "tuple", "deque") and n >= 4:
                    # size: 1,200 elements (a chunked loop, a recursion per element, a too small memo must show)
                    outs.append(ctor(inner[i % len(inner)] for i in range(1200)))
            except TypeError:
                pass
        return outs[:n]
    if k == "map":
        ks = values(t["ka"], env, rng, 3, depth + 1)
        vs = values(t["va"], env, rng, 3, depth + 1)
        outs = [{}]
        if ks and vs:
            try:
                outs.append({ks[0]: vs[0]})
                tw = twin(ks[0])
                if tw is not None:          # an equal key that prints differently, right after the first
                    outs.append({tw: vs[0]})
                outs.append({kk: vs[i % len(vs)] for i, kk in enumerate(ks)})
            except TypeError:
                pass
        return outs[:n]
    if k == "tup":
        cols = [values(x, env, rng, 2, depth + 1) for x in t["xs"]]
        if any(not c for c in cols):
            return []
        return [tuple(c[0] for c in cols), tuple(c[-1] for c in cols)][:n]
    if k == "union":
        outs = []
        for x in t["xs"]:
            vs = values(x, env, rng, 3, depth + 1)
            outs += vs[:3]
        return outs[: max(n, 3 * len(t["xs"]))]
    if k == "cls":
        return class_values(t["c"], env, rng, n, depth)
    if k in ("any", "object"):
        return [1, "x", None]
    raise ValueError(k)


def class_values(name, env: Env, rng, n, depth):
    d = env.defs[name]
    C = env.obj(name)
    if depth > 3:
        # cut recursion: only possible if every field can be omitted / None
        fields = {}
        for fn, T, has_d, *_ in d["fields"]:
            if T["k"] in ("classvar", "noinit"):       # no constructor parameter
                continue
            if has_d or _accepts_none(T):
                if d["flavour"].startswith("typeddict"):
                    if not has_d:
                        fields[fn] = None
                elif not has_d:
                    fields[fn] = None
            elif T["k"] in ("coll", "map"):
                fields[fn] = values(T, env, rng, 1, depth + 1)[0]
            else:
                return []
        return [_construct(C, d, fields)]
    cols = {}
    for fn, T, has_d, *_ in d["fields"]:
        if T["k"] in ("classvar", "noinit"):           # no constructor parameter: the instance keeps the default
            continue
        vs = values(T, env, rng, 2, depth + 1)
        if not vs:
            return []
        cols[fn] = vs
    outs = []
    for i in range(min(n, 2)):
        # (members of one class at different nesting levels get different values where the pool allows: a routine that
        # mixes up the levels of a recursive value must show)
        fields = {fn: (vs[depth % len(vs)] if i == 0 and len(vs) > 1 and depth else vs[min(i, len(vs) - 1) if i == 0 else -1])
                  for fn, vs in cols.items()}
        outs.append(_construct(C, d, fields))
    if depth == 0 and len(outs) > 1:
        # a directly recursive class: the second value is a chain four levels deep with a different payload at every level
        chain = _deep_chain(name, env, rng)
        if chain is not None:
            outs[1] = chain
    optional = [f[0] for f in d["fields"] if f[2]]
    if d["flavour"].startswith("typeddict") and d["flavour"] != "typeddict" and optional and n > 2:
        # a TypedDict value that leaves its optional keys out
        outs.append({k: v for k, v in outs[0].items() if k not in optional})
    return outs


def _deep_chain(name, env, rng, levels=4):
    d = env.defs[name]
    if d["flavour"].startswith("typeddict"):
        return None

    def peel(T):
        while T["k"] in ("newtype", "alias", "salias", "final", "annotated"):
            T = T["a"]
        return T
    rec = None
    for fn, T, *_ in d["fields"]:
        t = peel(T)
        if t["k"] == "union" and any(peel(m) == {"k": "cls", "c": name} for m in t["xs"]):
            rec = (fn, "opt")
        elif t["k"] == "coll" and t["c"] == "list" and peel(t["a"]) == {"k": "cls", "c": name}:
            rec = (fn, "list")
    if rec is None:
        return None
    C = env.obj(name)
    node = None
    for lvl in range(levels, 0, -1):
        fields = {}
        for fn, T, *_ in d["fields"]:
            if T["k"] in ("classvar", "noinit"):
                continue
            if fn == rec[0]:
                fields[fn] = (node if rec[1] == "opt" else ([node] if node is not None else []))
            else:
                vs = values(T, env, rng, 4, 3)
                if not vs:
                    return None
                fields[fn] = vs[lvl % len(vs)]
        try:
            node = _construct(C, d, fields)
        except Exception:
            return None
    return node


def _construct(C, d, fields):
    if d["flavour"].startswith("typeddict"):
        return dict(fields)
    return C(**fields)
