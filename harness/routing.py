"""Routine tables of the real factory, projected onto the abstract types of spec/Factory.tla.

A case is (topo, root) as emitted by TLC: topo[i-1] is the field list of class C<i>, every type is
[tag, i, k] with tag in S / cls / gen / nt / al.  `materialise` builds real classes and wrappers,
`observe` builds the real unmarshaller / marshaller for the root (without ever calling it) and walks the
routine objects: kind of each routine (real / delayed / noop, by class name), its `.t`, and the member
slots of every real composite routine.  Everything is mapped back to abstract types so that the trace
spec can judge the table with Factory's own operators.
"""
from __future__ import annotations

import typing

from .terms import Deadline, with_deadline
from .typeterms import Env

P_INT = {"k": "prim", "n": "int"}
NONE = {"k": "prim", "n": "NoneType"}
BARE_KIND = {"Optional": "opt", "Union": "opt", "list": "list", "List": "list", "dict": "dict", "Dict": "dict",
             "tuple": "tupv", "Tuple": "tupv"}


def term_of(t, wrapper="newtype"):
    tag, i, k = t
    c = {"k": "cls", "c": f"C{i}"}
    if tag == "S":
        return P_INT
    if tag == "cls":
        return c
    if tag == "gen":
        return {"opt": {"k": "union", "sp": "Optional", "xs": [c, NONE]},
                "list": {"k": "coll", "c": "list", "sp": "builtin", "a": c},
                "dict": {"k": "map", "c": "dict", "sp": "builtin", "ka": {"k": "prim", "n": "str"}, "va": c},
                "tupv": {"k": "coll", "c": "tuple", "sp": "builtin", "a": c}}[k]
    if tag == "nt":
        return {"k": wrapper, "a": c}
    if tag == "al":
        return {"k": "alias", "a": term_of(["gen", i, k])}
    raise ValueError(t)


class Case:
    def __init__(self, topo, root, variant=0):
        self.topo, self.root = topo, root
        # the named wrapper of a class is a NewType in even variants, a value alias in odd ones
        self.wrapper = "newtype" if variant % 2 == 0 else "alias"
        flavours = ["dataclass", "dc_slots", "plain", "namedtuple"]
        defs = {}
        for i, fields in enumerate(topo, 1):
            defs[f"C{i}"] = {"flavour": flavours[(variant // 2 + i) % len(flavours)] if variant >= 2 else "dataclass",
                             "module": "m1", "py": f"C{i}",
                             "fields": [[f"f{j}", term_of(ft, self.wrapper), False] for j, ft in enumerate(fields, 1)]}
        self.env = Env(defs, tag="f")
        self.env.build(None, "m1")
        self.ann = self.env.annotation(term_of(root, self.wrapper))
        # reverse map: real objects -> abstract types
        self.known = []
        for i in range(1, len(topo) + 1):
            self.known.append((self.env.obj(f"C{i}"), ["cls", i, ""]))
        kinds = sorted({ft[2] for fs in topo for ft in fs if ft[0] in ("gen", "al")} | ({root[2]} if root[0] in ("gen", "al") else set()))
        for i in range(1, len(topo) + 1):
            for k in kinds:
                self.known.append((self.env.annotation(term_of(["gen", i, k])), ["gen", i, k]))
        self.by_name = {}
        for (key, home), name in self.env.wrappers.items():
            import json
            t = json.loads(key)
            inner = t["a"]
            if inner["k"] == "cls":
                ab = ["nt", int(inner["c"][1:]), ""]
            else:
                cls = inner.get("a") or inner.get("va") or inner["xs"][0]
                kind = {"union": "opt", "map": "dict"}.get(inner["k"], "tupv" if inner.get("c") == "tuple" else "list")
                ab = ["al", int(cls["c"][1:]), kind]
            self.by_name[name] = ab
            self.known.append((getattr(self.env.modules[home], name), ab))

    def abstract(self, o):
        """Abstract type of a real annotation object; None for auxiliary scalar members (NoneType, the str key)."""
        if o is int:
            return ["S", 0, ""]
        if o is type(None) or o is None or o is str:
            return None
        if isinstance(o, typing.ForwardRef):
            name = o.__forward_arg__.rsplit(".", 1)[-1]
            if name in self.by_name:
                ab = self.by_name[name]
                return ["ref-" + ab[0], ab[1], ab[2]]
            if name.startswith("C") and name[1:].isdigit():
                return ["ref-cls", int(name[1:]), ""]
            if name in BARE_KIND:
                return ["bare", 0, BARE_KIND[name]]
            return ["?", 0, "ForwardRef:" + name]
        for obj, ab in self.known:
            try:
                if obj is o or obj == o:
                    return ab
            except Exception:
                pass
        return ["?", 0, repr(o)[:60]]

    def dispose(self):
        self.env.dispose()


def _kind(r):
    n = type(r).__name__
    return "delayed" if n.startswith("Delayed") else "noop" if n.startswith("NoOp") else "real"


def _slots(r):
    """Member routines of a real composite routine, with the member type each stands for (by the routine's own
    bookkeeping where there is any); None if the routine is not a composite we know how to read."""
    if hasattr(r, "fields_by_var"):
        hints = typing.get_type_hints(r.t)
        return [(hints[name], r.fields_by_var.get(name)) for name in hints]
    if hasattr(r, "ordered_routines") and hasattr(r, "stack"):
        return list(zip(r.stack, r.ordered_routines))
    if hasattr(r, "keys") and hasattr(r, "values") and not isinstance(r.values, tuple):
        args = typing.get_args(r.t)
        return [(args[0], r.keys), (args[1], r.values)]
    if hasattr(r, "values") and hasattr(r.values, "t"):
        return [(typing.get_args(r.t)[0], r.values)]
    return None


def observe(case: Case, direction: str):
    import typelib
    ev = {"topo": case.topo, "root": case.root, "raised": "", "rootr": {"kind": "none", "t": ["-", 0, ""]}, "comps": []}
    unmapped = []
    try:
        R = with_deadline(5, typelib.unmarshaller if direction == "unmarshal" else typelib.marshaller, case.ann)
    except Deadline:
        ev["raised"] = "NonTermination"; return ev, unmapped
    except RecursionError:
        ev["raised"] = "RecursionError"; return ev, unmapped
    except Exception as e:
        ev["raised"] = type(e).__name__; return ev, unmapped

    def ab(o):
        a = case.abstract(o)
        if a is not None and a[0] == "?":
            unmapped.append(a[2])
        return a
    ev["rootr"] = {"kind": _kind(R), "t": ab(R.t)}
    seen, todo = set(), [R]
    while todo:
        r = todo.pop()
        if id(r) in seen or _kind(r) != "real":
            continue
        seen.add(id(r))
        try:
            sl = _slots(r)
        except Exception as e:          # e.g. hints of r.t do not resolve: the table cannot be read back
            unmapped.append(f"slots of {type(r).__name__}: {e!r}"[:80])
            continue
        if sl is None:
            continue
        rs = []
        for member_t, m in sl:
            if case.abstract(member_t) is None:      # NoneType / the str key of a dict: not a member of the abstract type
                continue
            if m is None:
                rs.append({"kind": "noop", "t": ["-", 0, ""]})
                continue
            rs.append({"kind": _kind(m), "t": ab(m.t)})
            todo.append(m)
        ev["comps"].append({"u": ab(r.t), "rs": rs})
    return ev, unmapped
