"""Passive trace source: a pytest plugin that records what the repository's own test suite does with the
public API, so that the trace specs can judge executions the suite already performs but asserts weakly.

    cd /repo && VERIF_RECORD=<file> PYTHONPATH=/verif python -m pytest -q -p harness.suite_recorder ...

Recorded (objects are kept alive until the session ends, nothing is projected while tests run):
  * every root passed to typelib.graph.static_order           -> C09: Graph_Trace events
  * every (value, t) given to marshal(), with the output       -> C06: Wire_Trace "marshal" events
The recorder only wraps module attributes; with the plugin not loaded nothing changes.
"""
from __future__ import annotations

import inspect
import json
import os
import sys
import typing

_ROOTS: list = []
_MARSHALS: list = []
_UNMARSHALS: list = []
_ORIG: dict = {}


def _wrap_everywhere(orig, wrapper):
    """Rebind every module attribute of the typelib package that is `orig`."""
    n = 0
    for name, mod in list(sys.modules.items()):
        if mod is None or not (name == "typelib" or name.startswith("typelib.")):
            continue
        for attr, obj in list(vars(mod).items()):
            if obj is orig:
                setattr(mod, attr, wrapper)
                n += 1
    return n


def pytest_configure(config):
    if not os.environ.get("VERIF_RECORD"):
        return
    import typelib  # noqa: F401
    from typelib import graph
    import typelib.marshals.api as mapi

    so = graph.static_order

    def static_order(t, *a, **kw):
        try:
            if not any(r is t for r in _ROOTS[-50:]):
                _ROOTS.append(t)
        except Exception:
            pass
        return so(t, *a, **kw)
    for attr in ("cache_clear", "cache_info", "__wrapped__"):
        if hasattr(so, attr):
            setattr(static_order, attr, getattr(so, attr))
    _ORIG["static_order"] = so
    _wrap_everywhere(so, static_order)

    mo = mapi.marshal

    def marshal(value, *a, **kw):
        out = mo(value, *a, **kw)
        t = kw.get("t", a[0] if a else None)
        if len(_MARSHALS) < 5000:
            _MARSHALS.append((value, t if t is not None else type(value), out))
        return out
    _ORIG["marshal"] = mo
    _wrap_everywhere(mo, marshal)

    import typelib.unmarshals.api as uapi
    uo = uapi.unmarshal

    def unmarshal(t, value, *a, **kw):
        try:
            out = uo(t, value, *a, **kw)
        except Exception as e:
            if len(_UNMARSHALS) < 5000:
                _UNMARSHALS.append((t, value, None, type(e).__name__))
            raise
        if len(_UNMARSHALS) < 5000:
            _UNMARSHALS.append((t, value, out, ""))
        return out
    _ORIG["unmarshal"] = uo
    _wrap_everywhere(uo, unmarshal)

    # most tests drive routine objects directly: every call of an unmarshaller routine (outermost calls only, so that one
    # test case is one event) is recorded with the type the routine is bound to
    import typelib.unmarshals.routines as ur
    depth = [0]

    def wrap_call(cls):
        orig = cls.__dict__["__call__"]

        def __call__(self, val, *a, **kw):
            depth[0] += 1
            try:
                out = orig(self, val, *a, **kw)
            except BaseException:
                depth[0] -= 1
                raise
            depth[0] -= 1
            if depth[0] == 0 and len(_UNMARSHALS) < 20000:
                _UNMARSHALS.append((getattr(self, "t", None), val, out, ""))
            return out
        __call__.__wrapped__ = orig
        cls.__call__ = __call__
    for name, cls in list(vars(ur).items()):
        if isinstance(cls, type) and name.endswith("Unmarshaller") and "__call__" in cls.__dict__ and not inspect.isabstract(cls):
            try:
                wrap_call(cls)
            except (TypeError, AttributeError):
                pass
    # the same for marshaller routines (outermost calls)
    import typelib.marshals.routines as mr
    mdepth = [0]

    def wrap_mcall(cls):
        orig = cls.__dict__["__call__"]

        def __call__(self, val, *a, **kw):
            mdepth[0] += 1
            try:
                out = orig(self, val, *a, **kw)
            finally:
                mdepth[0] -= 1
            if mdepth[0] == 0 and len(_MARSHALS) < 5000 and getattr(self, "t", None) is not None:
                _MARSHALS.append((val, self.t, out))
            return out
        __call__.__wrapped__ = orig
        cls.__call__ = __call__
    for name, cls in list(vars(mr).items()):
        if isinstance(cls, type) and name.endswith("Marshaller") and "__call__" in cls.__dict__ and not inspect.isabstract(cls):
            try:
                wrap_mcall(cls)
            except (TypeError, AttributeError):
                pass


def pytest_sessionfinish(session, exitstatus):
    path = os.environ.get("VERIF_RECORD")
    if not path:
        return
    sys.path.insert(0, os.path.dirname(os.path.dirname(os.path.abspath(__file__))))
    from harness.drivers import c06, c09
    from harness.terms import project, vkey
    import typelib
    import warnings
    warnings.simplefilter("ignore")
    out = {"graph": [], "marshal": [], "unmarshal": []}
    seen = []
    for root in _ROOTS:
        try:
            if any(root is r or root == r for r in seen):
                continue
        except Exception:
            pass
        seen.append(root)
        # a reference root is judged as the type it names (evaluated here with the standard library only);
        # bare strings depend on the caller's module, which is not known any more: skipped
        target = root
        if isinstance(root, str):
            continue
        if isinstance(root, typing.ForwardRef):
            try:
                ns = dict(vars(sys.modules[root.__forward_module__])) if root.__forward_module__ else {}
                target = eval(root.__forward_arg__, ns)
            except Exception:
                continue
        try:
            ev = c09.observe(target, None, [("as recorded", root)])
        except BaseException as e:       # the observer itself failed: reported, not judged
            out.setdefault("unobserved", []).append(repr(e)[:100])
            continue
        out["graph"].append({"root": repr(root)[:120],
                             "event": {k: ev[k] for k in ("nodes", "root", "rootu", "members", "salias", "equiv", "raised")}})
    marshal = _ORIG.get("marshal")
    for value, t, first in _MARSHALS:
        try:
            before = vkey(value)
            again = marshal(value, t=t)
            w = {"k": "ok", "r": project(first)}
            has_bytes = "bytes" in json.dumps(w) or "bytearray" in json.dumps(w) or "memoryview" in json.dumps(w)
            try:
                json.dumps(first); json_ok = True
            except Exception:
                json_ok = False
            ev = {"ev": "marshal", "T": {"k": "any"}, "w": w, "json_ok": json_ok, "again": project(again) == w["r"],
                  "shared": len(c06.mutable_ids(value) & c06.mutable_ids(first)), "intact": vkey(value) == before}
            out["marshal"].append({"t": repr(t)[:100], "value": repr(value)[:100], "byteslike": has_bytes, "event": ev})
        except BaseException as e:
            out.setdefault("unobserved", []).append(repr(e)[:100])
    # every (t, value) given to unmarshal(), with the result: C03's conformance clause, the annotation projected onto the
    # term language together with the table of the classes it mentions (harness/annterms.py)
    from harness import annterms
    for t, value, res, exc in _UNMARSHALS:
        try:
            ann = t
            if isinstance(t, (str, typing.ForwardRef)):
                continue                      # the caller's module is not known any more
            defs: dict = {}
            T = annterms.term_of(ann, defs)
            ev = {"ev": "unmarshal", "T": T, "defs": defs,
                  "out": {"k": "raised", "e": exc} if exc else {"k": "ok", "r": project(res)}}
            out["unmarshal"].append({"t": repr(t)[:100], "value": repr(value)[:100], "asserted": json.dumps(T) != json.dumps(annterms.ANY),
                                     "event": ev})
        except BaseException as e:
            out.setdefault("unobserved", []).append(repr(e)[:100])
    with open(path, "w") as fh:
        json.dump(out, fh, default=str)
