"""Running TLC / SANY and reading back what they print.

Everything TLC writes (metadir, generated cfg files, traces) goes to a scratch
directory outside /repo and /verif that is removed when the check exits.
"""
from __future__ import annotations

import atexit
import dataclasses
import json
import os
import re
import shutil
import subprocess
import tempfile
import time

VERIF = os.path.dirname(os.path.dirname(os.path.abspath(__file__)))
SPEC_DIR = os.path.join(VERIF, "spec")
_SCRATCH: str | None = None


class MachineryError(Exception):
    """The verification machinery itself failed (exit code 2, never a VIOLATION)."""


def scratch() -> str:
    global _SCRATCH
    if _SCRATCH is None:
        _SCRATCH = tempfile.mkdtemp(prefix="typelib-verif-")
        atexit.register(shutil.rmtree, _SCRATCH, ignore_errors=True)
    return _SCRATCH


def scratch_file(name: str) -> str:
    return os.path.join(scratch(), name)


@dataclasses.dataclass
class TLCResult:
    module: str
    cfg: str
    returncode: int
    stdout: str
    generated: int = 0
    distinct: int = 0
    depth: int = 0
    wall_s: float = 0.0
    printed: list = dataclasses.field(default_factory=list)
    error: str | None = None
    coverage: dict = dataclasses.field(default_factory=dict)

    @property
    def ok(self) -> bool:
        return self.returncode == 0 and self.error is None


_STATS = re.compile(r"(\d+) states generated, (\d+) distinct states found")
_DEPTH = re.compile(r"The depth of the complete state graph search is (\d+)")
_SIMSTATS = re.compile(r"The number of states generated: (\d+)")
_COV = re.compile(r"^<(\w+) line (\d+), col \d+ to line \d+, col \d+ of module (\w+)>: (\d+):(\d+)")


def _parse_printed(stdout: str) -> list:
    """PrintT(ToJson(x)) shows up as one TLA+ string literal per line."""
    out = []
    for line in stdout.splitlines():
        if len(line) >= 2 and line[0] == '"' and line[-1] == '"':
            try:
                inner = json.loads(line)
            except ValueError:
                continue
            try:
                out.append(json.loads(inner))
            except ValueError:
                out.append(inner)
    return out


def run(
    module: str,
    cfg: str | None = None,
    *,
    cfg_text: str | None = None,
    workers: int | str = "auto",
    simulate: str | None = None,
    depth: int | None = None,
    seed: int | None = None,
    env: dict | None = None,
    timeout: int = 1800,
    coverage: bool = False,
    deque: bool = False,
    extra: list[str] | None = None,
) -> TLCResult:
    """Run TLC on spec/<module>.tla with spec/<cfg> (or a generated cfg)."""
    sdir = scratch()
    tag = f"{module}-{int(time.time() * 1000) % 10**9}"
    metadir = os.path.join(sdir, "md-" + tag)
    if cfg_text is not None:
        cfg_path = os.path.join(sdir, tag + ".cfg")
        with open(cfg_path, "w") as fh:
            fh.write(cfg_text)
    else:
        cfg_path = os.path.join(SPEC_DIR, cfg or (module + ".cfg"))
    cmd = ["tlc", "-metadir", metadir, "-noGenerateSpecTE", "-config", cfg_path]
    cmd += ["-workers", str(workers)]
    if simulate is not None:
        cmd += ["-simulate", simulate]
    if depth is not None:
        cmd += ["-depth", str(depth)]
    if seed is not None:
        cmd += ["-seed", str(seed)]
    if coverage:
        cmd += ["-coverage", "1"]
    if extra:
        cmd += extra
    cmd.append(os.path.join(SPEC_DIR, module + ".tla"))
    penv = dict(os.environ)
    penv.update({k: str(v) for k, v in (env or {}).items()})
    if deque:
        penv["JAVA_TOOL_OPTIONS"] = (
            penv.get("JAVA_TOOL_OPTIONS", "") + " -Dtlc2.tool.queue.IStateQueue=StateDeque"
        ).strip()
    t0 = time.time()
    try:
        proc = subprocess.run(
            cmd, cwd=SPEC_DIR, env=penv, capture_output=True, text=True, timeout=timeout
        )
    except subprocess.TimeoutExpired as e:
        subprocess.run(["pkill", "-f", metadir], capture_output=True)
        shutil.rmtree(metadir, ignore_errors=True)
        raise MachineryError(f"TLC timeout after {timeout}s on {module}") from e
    wall = time.time() - t0
    shutil.rmtree(metadir, ignore_errors=True)
    out = proc.stdout + proc.stderr
    res = TLCResult(module, cfg_path, proc.returncode, out, wall_s=wall)
    m = None
    for m in _STATS.finditer(out):
        pass
    if m:
        res.generated, res.distinct = int(m.group(1)), int(m.group(2))
    else:
        m = _SIMSTATS.search(out)
        if m:
            res.generated = res.distinct = int(m.group(1))
    m = _DEPTH.search(out)
    if m:
        res.depth = int(m.group(1))
    res.printed = _parse_printed(proc.stdout)
    # (TLC reports its own errors at the start of a line; the text "Error:" inside a printed value -- "TypeError:..." in a logged
    # outcome -- is data)
    if proc.returncode != 0 or re.search(r"^Error:", out, re.M):
        em = re.search(r"^Error: (.*)", out, re.M)
        res.error = em.group(1) if em else f"exit {proc.returncode}"
    if coverage:
        for line in out.splitlines():
            cm = _COV.match(line.strip())
            if cm:
                res.coverage[cm.group(1)] = res.coverage.get(cm.group(1), 0) + int(cm.group(5))
    return res


def must(res: TLCResult, what: str) -> TLCResult:
    """A model-level run that must succeed; otherwise the machinery is broken."""
    if not res.ok:
        tail = "\n".join(res.stdout.splitlines()[-40:])
        raise MachineryError(f"{what}: TLC failed on {res.module} ({res.error})\n{tail}")
    return res


def write_ndjson(name: str, events: list) -> str:
    path = scratch_file(name)
    with open(path, "w") as fh:
        for e in events:
            fh.write(json.dumps(e, ensure_ascii=True, separators=(",", ":")))
            fh.write("\n")
    return path


def validate_trace(module: str, cfg: str, events: list, *, env: dict | None = None,
                   timeout: int = 1800, name: str = "trace.ndjson") -> tuple[TLCResult, list]:
    """Feed recorded events to a *_Trace spec.  Returns (result, rejects).

    The trace specs print one JSON object per rejected event ({"rej":..}) and
    must consume the whole log (POSTCONDITION); anything else is a machinery error.
    """
    if not events:
        raise MachineryError(f"{module}: no events to validate (vacuous)")
    path = write_ndjson(name, events)
    e = {"TRACE_FILE": path}
    e.update(env or {})
    res = run(module, cfg, workers=1, env=e, timeout=timeout)
    must(res, "trace validation")
    rejects = [p for p in res.printed if isinstance(p, dict) and "rej" in p]
    done = [p for p in res.printed if isinstance(p, dict) and "consumed" in p]
    if not done or int(done[-1]["consumed"]) != len(events):
        raise MachineryError(
            f"{module}: trace not fully consumed ({done[-1] if done else None} of {len(events)})"
        )
    return res, rejects


def sany(module: str) -> None:
    proc = subprocess.run(
        ["tla-sany", os.path.join(SPEC_DIR, module + ".tla")],
        cwd=SPEC_DIR, capture_output=True, text=True,
    )
    out = proc.stdout + proc.stderr
    if proc.returncode != 0 or "error" in out.lower().replace("semantic errors: 0", ""):
        if "*** Errors" in out or "Fatal" in out or proc.returncode != 0:
            raise MachineryError(f"SANY failed on {module}:\n{out[-2000:]}")
