"""Annotation object -> type term (the inverse of typeterms.Env.render, for annotations the harness did not generate).

Used by the passive suite-trace source: the repository's own tests call unmarshal(t, x) with their own types; to let
Wire.tla's Conf judge those results, `t` is projected onto the term language and the classes it mentions are described
in a class table of the same shape as Terms.tla's Defs, carried by the event itself.  Anything the term language has no
constructor for becomes {"k": "any"} (contents unasserted)."""
from __future__ import annotations

import collections
import dataclasses
import datetime
import decimal
import enum
import fractions
import inspect
import pathlib
import re
import sys
import types
import typing
import uuid

from .terms import cname

ANY = {"k": "any"}
PRIM = {int: "int", bool: "bool", float: "float", str: "str", bytes: "bytes", bytearray: "bytearray", decimal.Decimal: "Decimal",
        fractions.Fraction: "Fraction", uuid.UUID: "UUID", pathlib.PurePosixPath: "PurePosixPath", pathlib.Path: "Path",
        re.Pattern: "Pattern", datetime.date: "date", datetime.datetime: "datetime", datetime.time: "time",
        datetime.timedelta: "timedelta", type(None): "NoneType"}
COLL = {list: "list", set: "set", frozenset: "frozenset", collections.deque: "deque", tuple: "tuple",
        collections.abc.Sequence: "list", collections.abc.MutableSequence: "list", collections.abc.Collection: "list",
        collections.abc.Iterable: "list", collections.abc.Set: "set", collections.abc.MutableSet: "set"}
MAPS = (dict, collections.abc.Mapping, collections.abc.MutableMapping)


def _lit(v):
    if v is None:
        return {"k": "none"}
    if isinstance(v, bool):
        return {"k": "bool", "s": str(v)}
    if isinstance(v, int):
        return {"k": "int", "s": str(v)}
    if isinstance(v, str) and v.isascii() and v.isprintable():
        return {"k": "str", "s": v}
    return None


def term_of(ann, defs: dict, seen: tuple = (), depth: int = 0) -> dict:
    if depth > 8:
        return ANY
    if ann is None:
        ann = type(None)
    if ann in (typing.Any, object) or isinstance(ann, typing.TypeVar):
        return ANY
    if isinstance(ann, (str, typing.ForwardRef)):
        return ANY                       # (resolved by the caller where a module is known)
    if hasattr(ann, "__supertype__"):
        return {"k": "newtype", "a": term_of(ann.__supertype__, defs, seen, depth + 1)}
    if isinstance(ann, typing.TypeAliasType):
        if any(ann is s for s in seen):
            return ANY                   # a recursive alias: the term language has no fixpoint for structural types
        v = ann.__value__
        if isinstance(v, str):
            try:
                v = eval(v, dict(vars(sys.modules[ann.__module__])))
            except Exception:
                return ANY
        return {"k": "alias", "a": term_of(v, defs, seen + (ann,), depth + 1)}
    org = typing.get_origin(ann)
    args = typing.get_args(ann)
    if org is typing.Annotated:
        return {"k": "annotated", "a": term_of(args[0], defs, seen, depth + 1)}
    if org in (typing.Final, typing.ClassVar):
        return {"k": "final" if org is typing.Final else "classvar", "a": term_of(args[0], defs, seen, depth + 1)} if args else ANY
    if org in (typing.Union, types.UnionType):
        return {"k": "union", "sp": "Union", "xs": [term_of(a, defs, seen, depth + 1) for a in args]}
    if org is typing.Literal:
        vs = [_lit(v) for v in args]
        return {"k": "lit", "vs": vs} if all(v is not None for v in vs) else ANY
    if org is tuple:
        if not args:
            return ANY
        if len(args) == 2 and args[1] is ...:
            return {"k": "coll", "c": "tuple", "sp": "builtin", "a": term_of(args[0], defs, seen, depth + 1)}
        if ... in args:
            return ANY
        return {"k": "tup", "xs": [term_of(a, defs, seen, depth + 1) for a in args]}
    if org in COLL and len(args) == 1:
        return {"k": "coll", "c": COLL[org], "sp": "builtin", "a": term_of(args[0], defs, seen, depth + 1)}
    if org in MAPS and len(args) == 2:
        return {"k": "map", "c": "dict", "sp": "builtin", "ka": term_of(args[0], defs, seen, depth + 1),
                "va": term_of(args[1], defs, seen, depth + 1)}
    if org is not None:
        return ANY                       # other generics (user generics, Callable, type[..]): unasserted
    if ann in PRIM:
        return {"k": "prim", "n": PRIM[ann]}
    if not inspect.isclass(ann):
        return ANY
    if issubclass(ann, enum.Enum):
        return {"k": "enum", "e": ann.__name__}
    return _cls(ann, defs, seen, depth)


def _cls(cls, defs, seen, depth):
    name = cname(cls)
    mod, _, py = name.rpartition(".") if "." in name else ("", "", name)
    # cname is "<module>.<qualname>": split at the module boundary, not at the last dot
    m = getattr(cls, "__module__", "")
    if name.startswith(m + "."):
        mod, py = m, name[len(m) + 1:]
    key = name.replace(".", "_")
    if key in defs:
        return {"k": "cls", "c": key}
    try:
        hints = typing.get_type_hints(cls)
    except Exception:
        return ANY
    if typing.is_typeddict(cls):
        flavour = "typeddict_nr"
        opt = set(getattr(cls, "__optional_keys__", ()))
        members = [(n, t, n in opt) for n, t in hints.items()]
    elif dataclasses.is_dataclass(cls):
        flavour = "dataclass"
        fs = {f.name: f for f in dataclasses.fields(cls)}
        members = [(n, hints.get(n, typing.Any), not (f.default is dataclasses.MISSING and f.default_factory is dataclasses.MISSING))
                   for n, f in fs.items()]
    elif issubclass(cls, tuple) and hasattr(cls, "_fields"):
        flavour = "namedtuple"
        members = [(n, hints.get(n, typing.Any), n in getattr(cls, "_field_defaults", {})) for n in cls._fields]
    elif hints and not issubclass(cls, (list, dict, set, frozenset, str, bytes, int, float)):
        flavour = "plain"
        members = [(n, t, False) for n, t in hints.items() if not n.startswith("_")]
    else:
        return ANY
    defs[key] = {"flavour": flavour, "module": mod, "py": py, "fields": []}      # placeholder: the class may refer to itself
    defs[key]["fields"] = [[n, term_of(t, defs, seen, depth + 1), bool(d)] for n, t, d in members]
    return {"k": "cls", "c": key}
