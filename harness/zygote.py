"""Cold-process execution for C12: a zygote that has imported typelib and built the test modules but made
no typelib call forks one child per request; the child runs one operation (cold) or one whole history
(warm) and reports projected outcomes.  The driver process itself never calls typelib."""
from __future__ import annotations

import datetime
import json
import os
import sys
import types
import typing

UTC = datetime.timezone.utc


def _tz(h):
    return datetime.timezone(datetime.timedelta(hours=h))


class Sent:
    def __repr__(self):
        return "<mutation-marker>"


def families():
    """name -> {(eq, d): (callable description)}.  Objects with the same eq compare/hash equal (or share a memo key)
    but differ observably in d.  Every entry returns (fn, make_args) so that inputs are rebuilt for every call."""
    import decimal
    import typelib
    src_a = "import dataclasses\n@dataclasses.dataclass\nclass Item:\n    a: int\n"
    src_b = "import dataclasses, decimal\n@dataclasses.dataclass\nclass Item:\n    a: decimal.Decimal\n"
    src_i = ("import dataclasses, typing\n@dataclasses.dataclass\nclass InitF:\n    a: int\n    b: int = dataclasses.field(init=False, default=7)\n"
             "    def __post_init__(self):\n        self.b = self.a + 1\n"
             "class NT(typing.NamedTuple):\n    x: int\n    y: str = 'd'\n"
             "class TD(typing.TypedDict):\n    x: int\n    y: typing.NotRequired[str]\n"
             "class TD5(typing.TypedDict):\n    alpha: int\n    bravo: int\n    charlie: int\n    delta: int\n    echo: int\n")
    src_r = ("import dataclasses, typing\n@dataclasses.dataclass\nclass R1:\n    v: int\n    nxt: 'typing.Optional[R1]' = None\n"
             "    kids: 'list[R1]' = dataclasses.field(default_factory=list)\n")
    src_p = ("import dataclasses\n@dataclasses.dataclass\nclass Account:\n    owner: str\n    _revision: int = 0\n")
    src_s = ("import dataclasses, typing\n@dataclasses.dataclass\nclass Account:\n    id: int\n    name: str\n"
             "@dataclasses.dataclass\nclass AdminAccount(Account):\n    level: int = 0\n"
             "@dataclasses.dataclass\nclass Holder:\n    owner: 'typing.Union[Account, str]'\n"
             "@dataclasses.dataclass(frozen=True)\nclass Snapshot:\n    id: int\n    tags: 'list[str]' = dataclasses.field(default_factory=list)\n"
             "SNAP1 = Snapshot(1, ['a'])\nSNAP2 = Snapshot(2, ['x'])\n"
             "def snap1():\n    SNAP1.tags[:] = ['a']\n    return SNAP1\n"
             "def snap2():\n    SNAP2.tags[:] = ['x']\n    return SNAP2\n"
             # a live mapping that inserts a key when an absent one is looked up (collections.defaultdict), with more keys than
             # the target declares and without some declared ones; the caller keeps it and uses it again
             "import collections\n@dataclasses.dataclass\nclass Search:\n    q: str\n    page: int = 1\n    lang: str = 'en'\n"
             "class Paging(typing.TypedDict, total=False):\n    size: int\n    page: int\n"
             "PARAMS = collections.defaultdict(str)\nPARAMS2 = collections.defaultdict(str)\n"
             "def params():\n    PARAMS.clear(); PARAMS.update({'q': 'x', 'utm1': 'a', 'utm2': 'b', 'utm3': 'c'})\n    return PARAMS\n"
             "def params2():\n    PARAMS2.clear(); PARAMS2.update({'size': '5', 'k1': 'a', 'k2': 'b', 'k3': 'c'})\n    return PARAMS2\n"
             "@dataclasses.dataclass\nclass Comment:\n    id: int\n    replies: 'list[Comment]' = dataclasses.field(default_factory=list)\n"
             "@dataclasses.dataclass\nclass Chain:\n    n: int\n    nxt: 'typing.Optional[Chain]' = None\n"
             # the caller keeps one payload and repairs it in place: the nested objects keep their identity
             "SHARED1 = {}\nINNER1 = {}\nSHARED2 = {}\nINNER2 = {}\n"
             "def payload1(bad):\n    INNER1.clear(); INNER1.update({'id': 'oops' if bad else '2', 'replies': []})\n"
             "    SHARED1.clear(); SHARED1.update({'id': '1', 'replies': [INNER1]})\n    return SHARED1\n"
             "def payload2(bad):\n    INNER2.clear(); INNER2.update({'n': 'oops' if bad else '2', 'nxt': None})\n"
             "    SHARED2.clear(); SHARED2.update({'n': '1', 'nxt': INNER2})\n    return SHARED2\n")
    mods = {}
    for name, src in (("verif_hist_s", src_s), ("verif_hist_a", src_a), ("verif_hist_b", src_b), ("verif_hist_r", src_r), ("verif_hist_i", src_i),
                      ("verif_hist_p", src_p)):
        m = types.ModuleType(name)
        m.__file__ = f"/verif-generated/{name}.py"            # file-backed in the eyes of inspect.getmodule()
        sys.modules[name] = m
        exec(compile(src + "\nimport typelib\ndef um(ref, x):\n    return typelib.unmarshal(ref, x)\n", m.__file__, "exec", dont_inherit=True), m.__dict__)
        mods[name] = m
    A, B, R, I = mods["verif_hist_a"], mods["verif_hist_b"], mods["verif_hist_r"], mods["verif_hist_i"]
    PF = mods["verif_hist_p"]
    SM = mods["verif_hist_s"]
    import pendulum
    from typelib import serdes
    U = typing.Union
    u12 = datetime.datetime(2020, 1, 1, 12, tzinfo=UTC)
    nested = lambda: {"v": "1", "nxt": {"v": "2", "kids": [{"v": "3"}]}, "kids": [{"v": "4"}]}      # noqa: E731

    def um(T, mk):
        return (lambda x: typelib.unmarshal(T, x), mk)

    def ma(T, mk):
        return (lambda x: typelib.marshal(x, t=T), mk)

    def std_dumps(m):
        return json.dumps(m).encode()
    fam = {
        "union_unmarshal": {(1, 1): um(U[int, str], lambda: "1"), (1, 2): um(U[str, int], lambda: "1"),
                            (2, 1): um(U[float, str], lambda: "2"), (2, 2): um(U[str, float], lambda: "2")},
        "union_marshal": {(1, 1): ma(U[int, str], lambda: 5), (1, 2): ma(U[str, int], lambda: 5),
                          (2, 1): ma(U[decimal.Decimal, int], lambda: 7), (2, 2): ma(U[int, decimal.Decimal], lambda: 7)},
        "union_in_list": {(1, 1): um(list[U[int, str]], lambda: ["1", "x"]), (1, 2): um(list[U[str, int]], lambda: ["1", "x"]),
                          (2, 1): um(dict[str, U[int, str]], lambda: {"a": "1"}), (2, 2): um(dict[str, U[str, int]], lambda: {"a": "1"})},
        "instants": {(1, 1): ma(datetime.datetime, lambda: u12), (1, 2): ma(datetime.datetime, lambda: u12.astimezone(_tz(5))),
                     (2, 1): ma(datetime.time, lambda: datetime.time(12, 0, tzinfo=UTC)),
                     (2, 2): ma(datetime.time, lambda: datetime.time(17, 0, tzinfo=_tz(5)))},
        "instants_in_list": {(1, 1): ma(list[datetime.datetime], lambda: [u12]), (1, 2): ma(list[datetime.datetime], lambda: [u12.astimezone(_tz(-3))]),
                             (2, 1): um(str, lambda: u12), (2, 2): um(str, lambda: u12.astimezone(_tz(9)))},
        "text_carriers": {(1, 1): um(list[int], lambda: "[1, 2]"), (1, 2): um(list[int], lambda: b"[1, 2]"),
                          (2, 1): um(dict[str, int], lambda: '{"a": "1"}'), (2, 2): um(dict[str, int], lambda: bytearray(b'{"a": "1"}'))},
        "bare_containers": {(1, 1): um(list, lambda: "[1, 2]"), (1, 2): um(list, lambda: b"[1, 2]"),
                            (2, 1): um(dict, lambda: '{"a": [1]}'), (2, 2): um(typing.Mapping, lambda: '{"a": [1]}')},
        "numbers": {(1, 1): um(str, lambda: 1), (1, 2): um(str, lambda: 1.0), (2, 1): um(float, lambda: 1), (2, 2): um(float, lambda: True)},
        "same_name_classes": {(1, 1): um(A.Item, lambda: {"a": "1"}), (1, 2): um(B.Item, lambda: {"a": "1"}),
                              (2, 1): ma(A.Item, lambda: A.Item(a=1)), (2, 2): ma(B.Item, lambda: B.Item(a=decimal.Decimal("1.5")))},
        "string_refs": {(1, 1): (lambda x: A.um("Item", x), lambda: {"a": "1"}), (1, 2): (lambda x: B.um("Item", x), lambda: {"a": "1"}),
                        (2, 1): (lambda x: A.um("verif_hist_a.Item", x), lambda: {"a": "2"}),
                        (2, 2): (lambda x: B.um("verif_hist_b.Item", x), lambda: {"a": "2"})},
        "recursive": {(1, 1): um(R.R1, nested), (1, 2): um(list[R.R1], lambda: [nested()]),
                      (2, 1): um(typing.Optional[R.R1], nested), (2, 2): um(dict[str, R.R1], lambda: {"k": nested()})},
        "codec_configs": {(1, 1): (lambda x: typelib.codec(dict[str, int]).encode(x), lambda: {"a": 1}),
                          (1, 2): (lambda x: typelib.codec(dict[str, int], encoder=std_dumps).encode(x), lambda: {"a": 1}),
                          (2, 1): (lambda x: typelib.decode(list[int], x), lambda: b'["1"]'),
                          (2, 2): (lambda x: typelib.codec(list[int]).decode(x), lambda: b'["1"]')},
        # one class, different routine kinds: the order in which its routines are first built must not matter
        "build_order": {(1, 1): um(I.InitF, lambda: {"a": "1"}), (1, 2): ma(I.InitF, lambda: I.InitF(a=1)),
                        (2, 1): (lambda x: typelib.codec(I.InitF).encode(x), lambda: I.InitF(a=2)),
                        (2, 2): (lambda x: typelib.codec(list[I.InitF]).decode(x), lambda: b'[{"a": "3"}]')},
        "build_order_nt": {(1, 1): um(I.NT, lambda: {"x": "1"}), (1, 2): ma(I.NT, lambda: I.NT(x=1)),
                           (2, 1): um(I.TD, lambda: {"x": "1", "y": 2}), (2, 2): ma(I.TD, lambda: {"x": 1, "y": "s"})},
        # one routine, different inputs of one class: an earlier input must not change how a later one is handled
        "same_routine_inputs": {(1, 1): um(U[int, str], lambda: "1"), (1, 2): um(U[int, str], lambda: "abc"),
                                (2, 1): (lambda x: typelib.codec(list[U[int, str]]).decode(x), lambda: b'["7"]'),
                                (2, 2): (lambda x: typelib.codec(list[U[int, str]]).decode(x), lambda: b'["x"]')},
        "same_routine_inputs2": {(1, 1): ma(U[int, str], lambda: "7"), (1, 2): ma(U[int, str], lambda: "seven"),
                                 (2, 1): um(typing.Optional[str], lambda: "a"), (2, 2): um(typing.Optional[str], lambda: None)},
        # a private init field: building the marshaller first must not change what the unmarshaller reads
        "private_fields": {(1, 1): ma(PF.Account, lambda: PF.Account("o", 7)), (1, 2): um(PF.Account, lambda: {"owner": "o", "_revision": "7"}),
                           (2, 1): (lambda x: typelib.codec(PF.Account).encode(x), lambda: PF.Account("p", 3)),
                           (2, 2): um(list[PF.Account], lambda: [{"owner": "q", "_revision": 2}])},
        # literal / JSON text whose decoded value holds mutable containers below the top level
        "nested_text": {(1, 1): um(typing.Any, lambda: "(1, [2, 3])"), (1, 2): (lambda x: serdes.load(x), lambda: "(1, [2, 3])"),
                        (2, 1): um(typing.Any, lambda: '{"a": [1, {"b": [2]}]}'), (2, 2): (lambda x: serdes.load(x), lambda: b'{"a": [1, {"b": [2]}]}')},
        "nested_text2": {(1, 1): um(dict, lambda: '{"a": [1, {"b": [2]}]}'), (1, 2): um(typing.Mapping, lambda: bytearray(b'{"a": [1, {"b": [2]}]}')),
                         (2, 1): um(list, lambda: "[[1], [2]]"), (2, 2): um(tuple, lambda: "([1], [2])")},
        # durations that are == but of different classes / different calendar fields
        "duration_classes": {(1, 1): ma(datetime.timedelta, lambda: datetime.timedelta(days=365)),
                             (1, 2): ma(datetime.timedelta, lambda: pendulum.duration(years=1)),
                             (2, 1): um(str, lambda: datetime.timedelta(days=30)), (2, 2): um(str, lambda: pendulum.duration(months=1))},
        # temporal -> text / bytes targets with equal instants at different offsets
        "temporal_text_targets": {(1, 1): um(bytes, lambda: u12), (1, 2): um(bytes, lambda: u12.astimezone(_tz(9))),
                                  (2, 1): um(list[str], lambda: [datetime.time(12, 0, tzinfo=UTC)]),
                                  (2, 2): um(list[str], lambda: [datetime.time(17, 0, tzinfo=_tz(5))])},
        # mapping keys that are == but print differently (exponent, offset)
        "equal_keys": {(1, 1): um(dict[decimal.Decimal, int], lambda: {decimal.Decimal("1.0"): 1}),
                       (1, 2): um(dict[decimal.Decimal, int], lambda: {decimal.Decimal("1.00"): 1}),
                       (2, 1): um(dict[datetime.datetime, int], lambda: {u12: 1}),
                       (2, 2): um(dict[datetime.datetime, int], lambda: {u12.astimezone(_tz(2)): 1})},
        # annotations with one runtime origin that need different routines
        "same_origin_kinds": {(1, 1): um(tuple[int, ...], lambda: ["1", "2", "3"]), (1, 2): um(tuple[str, int], lambda: ["a", "1"]),
                              (2, 1): ma(tuple[int, ...], lambda: (1, 2, 3)), (2, 2): ma(tuple[str, int], lambda: ("a", 1))},
        "same_origin_kinds2": {(1, 1): um(dict[str, int], lambda: {"x": "1", "y": "2"}), (1, 2): um(I.TD, lambda: {"x": "1", "y": 2}),
                               (2, 1): um(tuple[int, str], lambda: ["1", 2]), (2, 2): um(I.NT, lambda: ["1", 2])},
        # one routine, values of different classes for one annotation: a subclass instance, a mapping, the class itself
        "value_classes": {(1, 1): ma(SM.Account, lambda: SM.AdminAccount(1, "ann", 2)), (1, 2): ma(SM.Account, lambda: SM.Account(2, "bob")),
                          (2, 1): ma(SM.Holder, lambda: SM.Holder({"id": 3, "name": "cy"})), (2, 2): ma(SM.Holder, lambda: SM.Holder(SM.Account(4, "di")))},
        # the very same input object again after a failed call and an in-place repair (recursive types)
        "retry_same_object": {(1, 1): um(SM.Comment, lambda: SM.payload1(True)), (1, 2): um(SM.Comment, lambda: SM.payload1(False)),
                              (2, 1): um(SM.Chain, lambda: SM.payload2(True)), (2, 2): um(SM.Chain, lambda: SM.payload2(False))},
        # a class and its subclass (which adds a member): whichever is met first must not decide how the other is taken apart
        "subclass_after_base": {(1, 1): ma(SM.Account, lambda: SM.Account(2, "bob")), (1, 2): ma(SM.AdminAccount, lambda: SM.AdminAccount(1, "ann", 2)),
                                (2, 1): (lambda x: list(serdes.iteritems(x)), lambda: SM.Account(3, "cy")),
                                (2, 2): (lambda x: list(serdes.iteritems(x)), lambda: SM.AdminAccount(4, "di", 5))},
        # an input that already is an instance of the (frozen) target class: the result must not be the caller's object
        # (the caller keeps the instance and passes the very same object again)
        "frozen_instance_input": {(1, 1): um(SM.Snapshot, lambda: SM.snap1()), (1, 2): um(SM.Snapshot, lambda: SM.Snapshot(1, ["a", "b"])),
                                  (2, 1): um(list[SM.Snapshot], lambda: [SM.snap2()]),
                                  (2, 2): um(dict[str, SM.Snapshot], lambda: {"k": SM.snap2()})},
        "inserting_mapping_input": {(1, 1): um(SM.Search, lambda: SM.params()), (1, 2): ma(dict[str, str], lambda: SM.params()),
                                    (2, 1): um(SM.Paging, lambda: SM.params2()), (2, 2): (lambda x: typelib.encode(x, t=dict[str, str]), lambda: SM.params2())},
        # annotations written inline at the call site: a new annotation object per call (the subscription is evaluated inside the
        # lambda), dead when the call returns; three calls per cell (what a later, different annotation at the address of a dead
        # one is served is the subject)
        "throwaway_annotations": {(1, 1): (lambda x: [typelib.unmarshal(list[int], x) for _ in range(3)][-1], lambda: ["1", "2"]),
                                  (1, 2): (lambda x: [typelib.unmarshal(dict[str, float], x) for _ in range(3)][-1], lambda: {"a": "1"}),
                                  (2, 1): (lambda x: [typelib.marshal(x, t=tuple[int, str]) for _ in range(3)][-1], lambda: (1, "one")),
                                  (2, 2): (lambda x: [typelib.marshal(x, t=dict[str, int]) for _ in range(3)][-1], lambda: {"a": 1, "b": 2})},
        # numbers read as seconds since the epoch, near a UTC midnight
        "epoch_numbers": {(1, 1): um(datetime.date, lambda: 64800), (1, 2): um(datetime.date, lambda: 86399.5),
                          (2, 1): um(datetime.date, lambda: "64800"), (2, 2): um(datetime.datetime, lambda: 1709249400)},
        # a rejection must stay a rejection: the same invalid input again, after valid ones, nested
        "typeddict_missing_key": {(1, 1): um(I.TD, lambda: {"y": "s"}), (1, 2): um(I.TD, lambda: {"x": "1", "y": "s"}),
                                  (2, 1): um(list[I.TD], lambda: [{"y": "t"}]), (2, 2): um(dict[str, I.TD], lambda: {"k": {"x": "2"}})},
        # marshalled key order of TypedDict values (several keys, given in another order than declared)
        "typeddict_key_order": {(1, 1): ma(I.TD5, lambda: {"delta": 4, "alpha": 1, "charlie": 3, "bravo": 2, "echo": 5}),
                                (1, 2): (lambda x: typelib.encode(x, t=I.TD5), lambda: {"echo": 5, "delta": 4, "charlie": 3, "bravo": 2, "alpha": 1}),
                                (2, 1): ma(list[I.TD5], lambda: [{"charlie": 3, "alpha": 1, "echo": 5, "bravo": 2, "delta": 4}]),
                                (2, 2): um(I.TD5, lambda: {"bravo": "2", "echo": "5", "alpha": "1", "delta": "4", "charlie": "3"})},
        "dateparse": {(1, 1): um(datetime.datetime, lambda: "2020-01-01"), (1, 2): um(datetime.date, lambda: "2020-01-01"),
                      (2, 1): um(datetime.timedelta, lambda: "PT1S"), (2, 2): um(datetime.timedelta, lambda: 1)},
    }
    return fam


def deep_mutate(x, depth=0):
    """Mutate a value in place wherever Python lets us; returns True if anything was changed."""
    changed = False
    if depth > 6:
        return False
    if isinstance(x, list):
        for e in list(x):
            changed |= deep_mutate(e, depth + 1)
        x.append(Sent()); changed = True
    elif isinstance(x, dict):
        for e in list(x.values()):
            changed |= deep_mutate(e, depth + 1)
        x["__mutated__"] = Sent(); changed = True
    elif isinstance(x, tuple):
        for e in x:                       # a tuple cannot be changed, what it holds can
            changed |= deep_mutate(e, depth + 1)
    elif isinstance(x, bytearray):
        x.extend(b"!"); changed = True
    elif hasattr(x, "__dict__") and not isinstance(x, type) and type(x).__module__.startswith("verif_"):
        for k, v in list(vars(x).items()):
            changed |= deep_mutate(v, depth + 1)
        try:
            setattr(x, next(iter(vars(x)), "zz"), Sent()); changed = True
        except Exception:
            pass
    return changed


def run_call(fam, eq, d):
    from harness.terms import project
    fn, mk = fam[(eq, d)]
    x = mk()
    before = json.dumps(project(x), sort_keys=True)
    try:
        r = fn(x)
        out = {"k": "ok", "r": project(r)}
    except Exception as e:
        r = None
        out = {"k": "raised", "e": type(e).__name__}
    return out, r, x, json.dumps(project(x), sort_keys=True) == before


def run_history(fam, ops):
    """Warm execution of one history; per operation: outcome, input intact, earlier results intact."""
    from harness.terms import clear_typelib_caches, project
    recs, results = [], []          # results: (index, object, snapshot, mutated?)
    for i, op in enumerate(ops):
        if op["op"] == "call":
            out, r, x, intact = run_call(fam, op["eq"], op["d"])
            earlier_ok = all(m or json.dumps(project(o), sort_keys=True) == snap for (_, o, snap, m, _x) in results)
            # a mutable container of this result that also sits in an earlier call's result (where neither got it from its input:
            # pass-through positions hand the caller's own objects back by design)
            from harness.drivers.c06 import mutable_ids
            mine = mutable_ids(r) - mutable_ids(x) if r is not None else set()
            disjoint = not any(mine & (mutable_ids(o) - mutable_ids(xo)) for (_, o, _s, _m, xo) in results if o is not None)
            results.append([i, r, json.dumps(project(r), sort_keys=True), False, x])
            recs.append({"op": "call", "eq": op["eq"], "d": op["d"], "warm": out, "input_intact": intact, "earlier_intact": earlier_ok,
                         "results_disjoint": disjoint})
        elif op["op"] == "mutate":
            tgt = [r for r in results if r[0] == op["target"] - 1]
            did = False
            indep = True
            if tgt:
                # first the input that was passed to that call: the result it returned must not move with it ...
                deep_mutate(tgt[0][4])
                indep = tgt[0][3] or tgt[0][1] is None or json.dumps(project(tgt[0][1]), sort_keys=True) == tgt[0][2]
                # ... then the result itself
                did = deep_mutate(tgt[0][1])
                tgt[0][3] = True
            recs.append({"op": "mutate", "did": did, "result_independent_of_input": indep})
        elif op["op"] == "clear":
            clear_typelib_caches()
            recs.append({"op": "clear"})
    return recs


def serve(rfd, wfd):
    """Zygote main loop: one forked child per request line."""
    import typelib  # noqa: F401  -- imported, nothing called
    import warnings
    warnings.simplefilter("ignore")
    fam = families()
    rf = os.fdopen(rfd, "r")
    wf = os.fdopen(wfd, "w")
    for line in rf:
        req = json.loads(line)
        pr, pw = os.pipe()
        pid = os.fork()
        if pid == 0:
            os.close(pr)
            try:
                if req["kind"] == "cold":
                    out, _, _, intact = run_call(fam[req["fam"]], req["eq"], req["d"])
                    res = {"cold": out, "input_intact": intact}
                else:
                    res = {"recs": run_history(fam[req["fam"]], req["ops"])}
            except BaseException as e:
                res = {"error": repr(e)[:300]}
            os.write(pw, (json.dumps(res) + "\n").encode())
            os._exit(0)
        os.close(pw)
        data = b""
        while True:
            chunk = os.read(pr, 65536)
            if not chunk:
                break
            data += chunk
        os.close(pr)
        os.waitpid(pid, 0)
        wf.write(data.decode() if data else json.dumps({"error": "child died"}) + "\n")
        wf.flush()
    os._exit(0)


class Zygote:
    def __init__(self):
        c2z_r, c2z_w = os.pipe()
        z2c_r, z2c_w = os.pipe()
        self.pid = os.fork()
        if self.pid == 0:
            os.close(c2z_w); os.close(z2c_r)
            try:
                serve(c2z_r, z2c_w)
            finally:
                os._exit(0)
        os.close(c2z_r); os.close(z2c_w)
        self.w = os.fdopen(c2z_w, "w")
        self.r = os.fdopen(z2c_r, "r")

    def ask(self, req):
        self.w.write(json.dumps(req) + "\n")
        self.w.flush()
        line = self.r.readline()
        if not line:
            raise RuntimeError("zygote died")
        return json.loads(line)

    def close(self):
        try:
            self.w.close()
            os.waitpid(self.pid, 0)
        except Exception:
            pass


class ExecZygote:
    """A zygote in a freshly started interpreter with another string-hash seed (a fork inherits the parent's): the same
    cold call there must give the same outcome -- nothing may follow the iteration order of a set of strings."""

    def __init__(self, hashseed: int):
        import subprocess
        verif = os.path.dirname(os.path.dirname(os.path.abspath(__file__)))
        # (and another process time zone, as POSIX TZ strings that need no zone database: nothing may follow local time either)
        env = dict(os.environ, PYTHONHASHSEED=str(hashseed), PYTHONDONTWRITEBYTECODE="1",
                   TZ={1: "XXX-14", 2: "EST+5", 3: "XXX+11:30"}.get(hashseed, "UTC"))
        code = f"import sys; sys.path.insert(0, {verif!r}); from harness import zygote; zygote.serve(0, 1)"
        self.p = subprocess.Popen([sys.executable, "-B", "-c", code], stdin=subprocess.PIPE, stdout=subprocess.PIPE,
                                  stderr=subprocess.DEVNULL, env=env, text=True)

    def ask(self, req):
        self.p.stdin.write(json.dumps(req) + "\n")
        self.p.stdin.flush()
        line = self.p.stdout.readline()
        if not line:
            raise RuntimeError("exec zygote died")
        return json.loads(line)

    def close(self):
        try:
            self.p.stdin.close()
            self.p.wait(timeout=20)
        except Exception:
            self.p.kill()


FAMILY_NAMES = ["union_unmarshal", "union_marshal", "union_in_list", "instants", "instants_in_list", "text_carriers",
                "bare_containers", "numbers", "same_name_classes", "string_refs", "recursive", "codec_configs", "dateparse",
                "build_order", "build_order_nt", "same_routine_inputs", "same_routine_inputs2", "private_fields", "nested_text",
                "nested_text2", "duration_classes", "temporal_text_targets", "equal_keys", "same_origin_kinds", "same_origin_kinds2", "value_classes", "retry_same_object", "subclass_after_base", "frozen_instance_input", "typeddict_missing_key", "typeddict_key_order", "inserting_mapping_input", "throwaway_annotations", "epoch_numbers"]
