"""C17 -- type predicates agree with Python's own type semantics (spec/Dispatch.tla)."""
from __future__ import annotations

import collections
import collections.abc as cabc
import dataclasses
import datetime
import decimal
import enum
import fractions
import inspect
import ipaddress
import json
import numbers
import pathlib
import re
import sys
import types
import typing
import typing_extensions
import uuid
import warnings

from .. import tlc
from ..core import Ctx, Outcome, Violation

BASES = {"date": datetime.date, "datetime": datetime.datetime, "time": datetime.time, "timedelta": datetime.timedelta,
         "Decimal": decimal.Decimal, "Fraction": fractions.Fraction, "UUID": uuid.UUID, "Iterable": cabc.Iterable,
         "Iterator": cabc.Iterator, "tuple": tuple, "Collection": cabc.Collection, "Sequence": cabc.Sequence, "Mapping": cabc.Mapping}
DIRECT = {"Enum": enum.Enum, "str": str, "Number": numbers.Number, "int": int, "float": float, "Pattern": re.Pattern,
          "PurePath": pathlib.PurePath, "text": (str, bytes, bytearray, memoryview), "byteslike": (bytes, bytearray, memoryview)}
# the library's documented abstract -> builtin map (inspection.origin docstring / GENERIC_TYPE_MAP)
ABSTRACT = {cabc.Sequence: list, cabc.MutableSequence: list, cabc.Collection: list, cabc.Iterable: list, cabc.Set: set,
            cabc.MutableSet: set, cabc.Mapping: dict, cabc.MutableMapping: dict, cabc.Hashable: str}
STDLIB_EXACT = {int, bool, float, str, bytes, bytearray, list, set, frozenset, tuple, dict, type(None), datetime.datetime, datetime.date,
                datetime.timedelta, datetime.time, decimal.Decimal, ipaddress.IPv4Address, ipaddress.IPv6Address, pathlib.Path, uuid.UUID,
                collections.defaultdict, collections.deque, types.MappingProxyType}
PREDICATES = ["isdatetype", "isdatetimetype", "istimetype", "istimedeltatype", "isdecimaltype", "isfractiontype", "isuuidtype",
              "isiterabletype", "isiteratortype", "istupletype", "iscollectiontype", "ismappingtype", "issequencetype",
              "isenumtype", "isstringtype", "isnumbertype", "isintegertype", "isfloattype", "ispatterntype", "ispathtype", "istexttype",
              "isbytestype", "isuniontype", "isoptionaltype", "isliteral", "isfinal", "isclassvartype", "isnonetype", "isforwardref",
              "istypeddict", "isnamedtuple", "isfixedtupletype", "isstructuredtype", "isfrozendataclass", "istypealiastype",
              "isstdlibtype", "isbuiltintype"]
# the documented tables (BuiltIntypeT / STDLibtypeT in py/inspection.py), written out independently
BUILTIN_TABLE = (int, bool, float, str, bytes, bytearray, list, set, frozenset, tuple, dict, type(None))
STDLIB_TABLE = BUILTIN_TABLE + (datetime.datetime, datetime.date, datetime.timedelta, datetime.time, decimal.Decimal, ipaddress.IPv4Address,
                                ipaddress.IPv6Address, pathlib.Path, uuid.UUID, collections.defaultdict, collections.deque, types.MappingProxyType)


def table_facts(o, table):
    """Per member other than None (or for the object itself): is the NewType-resolved class in the table?"""
    org = typing.get_origin(o)
    if org in (typing.Union, types.UnionType):
        members = [a for a in typing.get_args(o) if a is not None and a is not type(None)]
    else:
        members = [o]
    out = []
    for m in members:
        k = 0
        while hasattr(m, "__supertype__") and k < 10:
            m = m.__supertype__; k += 1
        if m is None:
            m = type(None)
        out.append(("T" if m in table else "F") if inspect.isclass(m) else "?")
    return out

_SRC = '''
import dataclasses, enum, typing, collections, typing_extensions
@dataclasses.dataclass
class DC:
    a: int
@dataclasses.dataclass(frozen=True)
class FDC:
    a: int
@dataclasses.dataclass(slots=True)
class SDC:
    a: int
class NT(typing.NamedTuple):
    x: int
CNT = collections.namedtuple("CNT", ["x", "y"])
class TD(typing.TypedDict):
    x: int
class TDN(typing.TypedDict, total=False):
    x: int
class TDExt(typing_extensions.TypedDict):
    x: int
    y: typing_extensions.NotRequired[str]
class TDExtSub(TDExt, total=False):
    z: float
class TDMany(typing.TypedDict):
    zeta: int
    alpha: str
    mid: typing.NotRequired[float]
    beta: int
    omega: typing.NotRequired[str]
    gamma: bytes
class Plain:
    a: int
    def __init__(self, a): self.a = a
class Empty: pass
@dataclasses.dataclass
class CallDC:                 # a structured class whose instances can be called
    a: int
    def __call__(self, x): return x
class CallPlain:
    a: int
    def __init__(self, a): self.a = a
    def __call__(self): return self.a
class Color(enum.Enum):
    RED = 1
class Level(enum.IntEnum):
    LOW = 1
class Tag(str, enum.Enum):
    A = "a"
class MyStr(str): pass
class MyInt(int): pass
class MyList(list): pass
class MyDict(dict): pass
class MyDate(__import__("datetime").date): pass
class MyTuple(tuple): pass
class SubDC(DC): pass
class MyMapping(collections.abc.Mapping):
    def __getitem__(self, k): raise KeyError(k)
    def __iter__(self): return iter(())
    def __len__(self): return 0
class MyIter:
    def __iter__(self): return self
    def __next__(self): raise StopIteration
T = typing.TypeVar("T")
ModSA = typing.TypeAliasType("ModSA", "DC")
ModNTSA = typing.NewType("ModNTSA", ModSA)
class Box(typing.Generic[T]):
    def __init__(self, v: T): self.v = v
class Page(typing.TypedDict, typing.Generic[T]):
    items: list[T]
class IntPage(Page[int]):
    n: int
class TDReq(typing.TypedDict, total=False):
    a: typing.Required[int]
    b: str
class TDInh(TD, total=False):
    y: str
@dataclasses.dataclass
class GDC(typing.Generic[T]):
    v: T
@dataclasses.dataclass(frozen=True)
class GFDC(typing.Generic[T]):
    v: T
class GNT(typing.NamedTuple, typing.Generic[T]):
    v: T
class SubNT(NT): pass
class GList(list[T]): pass
'''


_SRC2 = '''
import typing, verif_catalogue as c1
class DC:            # another class of the same name: a reference to "DC" means c1.DC only where it is resolved in c1
    pass
OtherNTSA = typing.NewType("OtherNTSA", c1.ModSA)
OtherASA = typing.TypeAliasType("OtherASA", c1.ModSA)
OtherNTNTSA = typing.NewType("OtherNTNTSA", OtherNTSA)
'''


def catalogue():
    mod = types.ModuleType("verif_catalogue")
    sys.modules["verif_catalogue"] = mod
    exec(compile(_SRC, "<verif-catalogue>", "exec", dont_inherit=True), mod.__dict__)
    mod2 = types.ModuleType("verif_catalogue2")
    sys.modules["verif_catalogue2"] = mod2
    exec(compile(_SRC2, "<verif-catalogue2>", "exec", dont_inherit=True), mod2.__dict__)
    g = mod.__dict__
    objs = {}

    def add(name, o, group=None):
        objs[name] = (o, group)
    for c in (int, bool, float, str, bytes, bytearray, memoryview, list, set, frozenset, tuple, dict, type(None), complex, object, type,
              datetime.date, datetime.datetime, datetime.time, datetime.timedelta, decimal.Decimal, fractions.Fraction, uuid.UUID,
              pathlib.Path, pathlib.PurePath, pathlib.PurePosixPath, re.Pattern, collections.deque, collections.defaultdict,
              collections.OrderedDict, collections.Counter, types.MappingProxyType, ipaddress.IPv4Address, range, enum.Enum):
        add(c.__name__, c)
    for n in ("DC", "FDC", "SDC", "NT", "CNT", "TD", "TDN", "Plain", "Empty", "Color", "Level", "Tag", "MyStr", "MyInt", "MyList", "MyDict",
              "MyDate", "MyTuple", "SubDC", "MyMapping", "MyIter", "Box", "Page", "IntPage", "TDReq", "TDInh", "GDC", "GFDC", "GNT",
              "SubNT", "GList", "CallDC", "CallPlain", "TDMany", "TDExt", "TDExtSub"):
        add(n, g[n])
    add("Page[int]", g["Page"][int]); add("GDC[int]", g["GDC"][int]); add("GNT[int]", g["GNT"][int]); add("GList[int]", g["GList"][int])
    add("generator", type(x for x in ()))
    add("list_iterator", type(iter([])))
    add("dict_keys", type({}.keys()))
    # collections.abc ABCs and typing aliases, bare and parameterised, both spellings (spelling groups)
    for n in ("Iterable", "Iterator", "Collection", "Sequence", "MutableSequence", "Set", "MutableSet", "Mapping", "MutableMapping", "Hashable",
              "Callable", "Reversible", "Container", "KeysView", "ValuesView"):
        add("abc." + n, getattr(cabc, n))
    T1 = {"List": (typing.List, list), "Dict": (typing.Dict, dict), "Set": (typing.Set, set), "FrozenSet": (typing.FrozenSet, frozenset),
          "Tuple": (typing.Tuple, tuple), "Deque": (typing.Deque, collections.deque), "DefaultDict": (typing.DefaultDict, collections.defaultdict),
          "OrderedDict": (typing.OrderedDict, collections.OrderedDict)}
    for n, (ty, bi) in T1.items():
        add("typing." + n, ty, group="bare:" + n)
        add("builtin:" + n, bi, group="bare:" + n)
    pairs = {"list[int]": (typing.List[int], list[int]), "dict[str,int]": (typing.Dict[str, int], dict[str, int]),
             "set[str]": (typing.Set[str], set[str]), "frozenset[int]": (typing.FrozenSet[int], frozenset[int]),
             "tuple[int,...]": (typing.Tuple[int, ...], tuple[int, ...]), "tuple[int,str]": (typing.Tuple[int, str], tuple[int, str]),
             "deque[int]": (typing.Deque[int], collections.deque[int]), "Sequence[int]": (typing.Sequence[int], cabc.Sequence[int]),
             "Mapping[str,int]": (typing.Mapping[str, int], cabc.Mapping[str, int]), "Iterable[int]": (typing.Iterable[int], cabc.Iterable[int]),
             "Iterator[int]": (typing.Iterator[int], cabc.Iterator[int]), "MutableMapping[str,int]": (typing.MutableMapping[str, int], cabc.MutableMapping[str, int]),
             "AbstractSet[int]": (typing.AbstractSet[int], cabc.Set[int]), "Collection[int]": (typing.Collection[int], cabc.Collection[int]),
             "MutableSequence[int]": (typing.MutableSequence[int], cabc.MutableSequence[int]), "list[DC]": (typing.List[g["DC"]], list[g["DC"]])}
    for n, (a, b) in pairs.items():
        add("typing:" + n, a, group="sub:" + n)
        add("pep585:" + n, b, group="sub:" + n)
    # unions in all spellings, Literal, Final, ClassVar, TypeVars, Callable, Any, wrappers
    add("Optional[int]", typing.Optional[int], group="opt:int"); add("Union[int,None]", typing.Union[int, None], group="opt:int")
    add("int|None", int | None, group="opt:int"); add("Union[None,int]", typing.Union[None, int], group="opt:int")
    add("Union[int,str]", typing.Union[int, str], group="u:int,str"); add("int|str", int | str, group="u:int,str")
    add("Union[str,int]", typing.Union[str, int]); add("Union[int,str,None]", typing.Union[int, str, None])
    add("Optional[DC]", typing.Optional[g["DC"]], group="opt:DC"); add("list[int]|None", list[int] | None)
    add("Union[None,DC]", typing.Union[None, g["DC"]], group="opt:DC"); add("DC|None", g["DC"] | None, group="opt:DC")
    add("Union[int,DC,None]", typing.Union[int, g["DC"], None], group="u:int,DC,None"); add("int|DC|None", int | g["DC"] | None, group="u:int,DC,None")
    add("Union[DC,int,None]", typing.Union[g["DC"], int, None]); add("Union[None,int,DC]", typing.Union[None, int, g["DC"]])
    add("Union[None,int,str]", typing.Union[None, int, str]); add("Union[int,None,date]", typing.Union[int, None, datetime.date])
    add("Union[date,Decimal]", typing.Union[datetime.date, decimal.Decimal]); add("Union[NewType(int),None]", typing.Union[typing.NewType("NTi2", int), None])
    add("Literal[1,'a']", typing.Literal[1, "a"]); add("Literal['a',None]", typing.Literal["a", None]); add("Literal['a',1]", typing.Literal["a", 1])
    add("Final[int]", typing.Final[int]); add("ClassVar[int]", typing.ClassVar[int]); add("Final[list[int]]", typing.Final[list[int]])
    add("ClassVar[list[int]]", typing.ClassVar[list[int]])
    add("Any", typing.Any); add("T", g["T"]); add("Callable[[int],str]", typing.Callable[[int], str]); add("Callable", typing.Callable)
    add("ForwardRef", typing.ForwardRef("DC", module="verif_catalogue")); add("Box[int]", g["Box"][int])
    NTint = typing.NewType("NTint", int); NTlist = typing.NewType("NTlist", list); NTDC = typing.NewType("NTDC", g["DC"])
    NTNT = typing.NewType("NTNT", NTint); Aint = typing.TypeAliasType("Aint", int); Alist = typing.TypeAliasType("Alist", list[int])
    NTA = typing.NewType("NTA", Alist); ADC = typing.TypeAliasType("ADC", g["DC"]); SA = typing.TypeAliasType("SA", "DC")
    NTstr = typing.NewType("NTstr", str); NTdate = typing.NewType("NTdate", datetime.date); Adict = typing.TypeAliasType("Adict", dict[str, int])
    for n, o in (("NewType(int)", NTint), ("NewType(list)", NTlist), ("NewType(DC)", NTDC), ("NewType(NewType(int))", NTNT), ("Alias(int)", Aint),
                 ("Alias(list[int])", Alist), ("NewType(Alias(list[int]))", NTA), ("Alias(DC)", ADC), ("StrAlias(DC)", SA), ("NewType(str)", NTstr),
                 ("NewType(date)", NTdate), ("Alias(dict[str,int])", Adict), ("ClassVar[Alias(list[int])]", typing.ClassVar[Alist]),
                 # a string-valued alias of the catalogue module, behind wrappers that live elsewhere (typing, another module)
                 ("ModStrAlias(DC)", g["ModSA"]), ("NewType(ModStrAlias)", g["ModNTSA"]), ("Final[ModStrAlias]", typing.Final[g["ModSA"]]),
                 ("ClassVar[ModStrAlias]", typing.ClassVar[g["ModSA"]]), ("other.NewType(ModStrAlias)", mod2.OtherNTSA),
                 ("other.Alias(ModStrAlias)", mod2.OtherASA), ("other.NewType(NewType(ModStrAlias))", mod2.OtherNTNTSA)):
        add(n, o)
    return objs


def resolve(o):
    """The class an annotation resolves to, with typing / the documented map only; None if it is not a class."""
    seen = 0
    while seen < 12:
        seen += 1
        if hasattr(o, "__supertype__"):
            o = o.__supertype__
        elif isinstance(o, typing.TypeAliasType):
            if isinstance(o.__value__, str):
                return None
            o = o.__value__
        elif typing.get_origin(o) is typing.ClassVar and typing.get_args(o):
            o = typing.get_args(o)[0]
        else:
            break
    org = typing.get_origin(o)
    if org in (typing.Union, types.UnionType, typing.Literal, typing.Annotated, typing.Final):
        return None
    c = org or o
    c = ABSTRACT.get(c, c)
    return c if inspect.isclass(c) else None


def deferred(o):
    for _ in range(12):
        if typing.get_origin(o) in (typing.Final, typing.ClassVar) and typing.get_args(o):
            o = typing.get_args(o)[0]
        elif isinstance(o, typing.TypeAliasType):
            if isinstance(o.__value__, str):
                return True
            o = o.__value__
        elif hasattr(o, "__supertype__"):
            o = o.__supertype__
        else:
            return False
    return False


def facts(o):
    org = typing.get_origin(o)
    args = typing.get_args(o)
    r = resolve(o)
    plain = inspect.isclass(o)
    isunion = org in (typing.Union, types.UnionType)
    isliteral = org is typing.Literal

    def sub(c, b):
        try:
            return issubclass(c, b)
        except TypeError:
            return False
    # (a class whose instances can be called is a class like any other; Callable itself and `type` are the callable forms)
    f = {"isclass": r is not None and r is not cabc.Callable and r is not type,
         "plainclass": plain,
         "sub": {k: (sub(r, b) if r is not None else False) for k, b in BASES.items()},
         "direct": {k: (sub(o, b) if plain else False) for k, b in DIRECT.items()},
         "isunion": isunion, "isliteral": isliteral, "isfinal": org is typing.Final, "isclassvar": org is typing.ClassVar,
         "isnone": o is None or o is type(None), "isforwardref": isinstance(o, typing.ForwardRef),
         "hasnone": any(a is None or a is type(None) for a in args),
         "nargs": len(args), "lastellipsis": bool(args) and args[-1] is ...,
         "origin": getattr(org, "__name__", "") if org is not None else "",
         "originsubtuple": inspect.isclass(org) and org is not tuple and issubclass(org, tuple),
         # for the dispatch tables (implementation-shaped layer)
         "unresolvable": o in (object, typing.Any, typing.Callable, cabc.Callable, ...) or org is cabc.Callable or org is type or o is type,
         "hasannotations": plain and bool(getattr(o, "__annotations__", False)),
         "subscripted": org is not None and bool(args),
         "istypeddict": typing.is_typeddict(o) or typing_extensions.is_typeddict(o), "hasfields": plain and hasattr(o, "_fields"),
         "userclass": plain and getattr(o, "__module__", "") == "verif_catalogue" and not any(sub(o, b) for b in STDLIB_EXACT if b is not type(None)),
         "stdlibexact": plain and o in STDLIB_EXACT,
         "frozen": bool(getattr(getattr(o, "__dataclass_params__", None), "frozen", False)),
         "isalias": isinstance(o, typing.TypeAliasType), "deferred": deferred(o),
         "stdlibtbl": table_facts(o, STDLIB_TABLE), "builtintbl": table_facts(o, BUILTIN_TABLE)}
    return f


def show(x):
    try:
        return repr(x)
    except Exception:
        return "<unprintable>"


def expected_origin(o):
    seen = 0
    while seen < 12:
        seen += 1
        if hasattr(o, "__supertype__"):
            o = o.__supertype__
        elif typing.get_origin(o) is typing.ClassVar and typing.get_args(o):
            o = typing.get_args(o)[0]
        elif isinstance(o, typing.TypeAliasType) and not isinstance(o.__value__, str):
            o = o.__value__
        else:
            break
    c = typing.get_origin(o) or o
    c = ABSTRACT.get(c, c)
    if c is types.UnionType:          # X | Y and Union[X, Y] are spellings of one form
        c = typing.Union
    return c


def run(ctx: Ctx) -> Outcome:
    from typelib.py import inspection
    warnings.simplefilter("ignore")
    objs = catalogue()
    events, meta = [], []

    def ask(fn, o):
        try:
            a = fn(o)
        except Exception as e:
            return "raised", type(e).__name__
        return a, None
    # pass 1 and 2: every predicate on every object, then again after an ==-equal twin was asked (cache stability)
    answers: dict = {}
    names = list(objs)
    from ..terms import clear_typelib_caches
    # the asserted answer is the *cold* one: every memo of the library is cleared before each question, so that an
    # ==-equal twin asked earlier (Optional[int] before Union[None, int]) cannot answer in the object's place
    for p in PREDICATES:
        fn = getattr(inspection, p)
        for n in names:
            o, grp = objs[n]
            clear_typelib_caches()
            a, exc = ask(fn, o)
            answers[(p, n)] = (a, exc)
    # then warm, in catalogue order and in reverse order: answers must not move (stability across calls)
    clear_typelib_caches()
    for p in PREDICATES:
        fn = getattr(inspection, p)
        for n in names:
            ask(fn, objs[n][0])
    # ask everything in reverse order as well, so that equal-but-different objects meet the memos both ways
    again: dict = {}
    for p in PREDICATES:
        fn = getattr(inspection, p)
        for n in reversed(names):
            o, grp = objs[n]
            again[(p, n)] = ask(fn, o)
    enc = lambda a: "raised" if a == "raised" else ("T" if a is True else "F" if a is False else "T" if a else "F")    # noqa: E731
    for p in PREDICATES:
        for n in names:
            o, grp = objs[n]
            a, exc = answers[(p, n)]
            b, _ = again[(p, n)]
            events.append({"ev": "pred", "p": p, "f": facts(o), "ans": enc(a), "again": enc(b)})
            meta.append({"p": p, "obj": n, "exc": exc or ""})
    # spelling groups: objects that are spellings of one type must get the same answers
    groups: dict = {}
    for n, (o, grp) in objs.items():
        if grp:
            groups.setdefault(grp, []).append(n)
    for p in PREDICATES:
        for grp, members in groups.items():
            events.append({"ev": "spelling", "p": p, "fs": [facts(objs[n][0]) for n in members],
                           "answers": [enc(answers[(p, n)][0]) for n in members]})
            meta.append({"p": p, "obj": grp, "exc": ",".join(members)})
    # accessors: origin / args / unwrap against typing
    for n in names:
        o, grp = objs[n]
        if isinstance(o, typing.ForwardRef) or deferred(o) or o is type:
            continue
        exp = expected_origin(o)
        for fnname, expect in (("origin", show(exp) if not (exp is typing.Callable or (inspect.isclass(exp) and issubclass(exp, cabc.Callable) and exp is not type) or inspect.isroutine(exp)) else None),):
            if expect is None:
                continue
            a, exc = ask(inspection.origin, o)
            b, _ = ask(inspection.origin, o)
            un = lambda x: typing.Union if x is types.UnionType else x        # noqa: E731  (X | Y and Union[X, Y]: one form)
            events.append({"ev": "accessor", "expect": expect, "got": "raised" if a == "raised" else show(un(a)), "again": "raised" if b == "raised" else show(un(b))})
            meta.append({"p": "origin", "obj": n, "exc": exc or ""})
        if not any(type(x) is typing.TypeVar for x in typing.get_args(o)):
            a, exc = ask(inspection.args, o)
            b, _ = ask(inspection.args, o)
            events.append({"ev": "accessor", "expect": show(tuple(typing.get_args(o))), "got": "raised" if a == "raised" else show(tuple(a)),
                           "again": "raised" if b == "raised" else show(tuple(b))})
            meta.append({"p": "args", "obj": n, "exc": exc or ""})
        # origin() of a collection annotation is a concrete instantiable class of that kind
        r = resolve(o)
        if r is not None and not typing.is_typeddict(r) and not typing_extensions.is_typeddict(r) and any(issubclass(r, k) for k in (list, set, frozenset, tuple, dict, collections.deque)):
            a, exc = ask(inspection.origin, o)
            ok_cls = inspect.isclass(a)
            inst = False
            if ok_cls:
                try:
                    a() if not (hasattr(a, "_fields") or dataclasses.is_dataclass(a)) else None
                    inst = True
                except Exception:
                    inst = hasattr(a, "_fields")
            events.append({"ev": "instantiable", "isclass": bool(ok_cls), "instantiable": bool(inst), "rightkind": bool(ok_cls and issubclass(a, r))})
            meta.append({"p": "origin-instantiable", "obj": n, "exc": exc or ""})
    # unwrap(): through Final / ClassVar / aliases / NewTypes; a string-valued alias ends in a reference to that text in the
    # module of the alias that holds it (whatever wrapper was asked)
    def expected_unwrap(o):
        for _ in range(12):
            if typing.get_origin(o) in (typing.Final, typing.ClassVar) and typing.get_args(o):
                o = typing.get_args(o)[0]
            elif isinstance(o, typing.TypeAliasType):
                if isinstance(o.__value__, str):
                    return ("ref", o.__value__, o.__module__)
                o = o.__value__ if o.__value__ is not None else type(None)
            elif hasattr(o, "__supertype__"):
                o = o.__supertype__ if o.__supertype__ is not None else type(None)
            else:
                break
        return show(o)

    def got_unwrap(x):
        r = inspection.unwrap(x)
        if isinstance(r, typing.ForwardRef):
            return ("ref", r.__forward_arg__, r.__forward_module__)
        return show(r)
    for n in names:
        o, grp = objs[n]
        if isinstance(o, typing.ForwardRef) or type(o) is typing.TypeVar or o is type:
            continue
        if isinstance(o, typing.TypeAliasType) and isinstance(o.__value__, str) and o.__module__ not in ("verif_catalogue", "verif_catalogue2"):
            continue            # an alias made inside a function: its text has no module to be resolved in
        clear_typelib_caches()
        a, exc = ask(got_unwrap, o)
        b, _ = ask(got_unwrap, o)
        events.append({"ev": "accessor", "expect": show(expected_unwrap(o)), "got": "raised" if a == "raised" else show(a),
                       "again": "raised" if b == "raised" else show(b)})
        meta.append({"p": "unwrap", "obj": n, "exc": exc or ""})
    # resolve_supertype(): follows __supertype__ to its end, whatever is found there (None, written as a NewType's supertype, is
    # an end like any other: "no supertype" is told by the attribute's absence, not by its value)
    def chain_end(o):
        for _ in range(12):
            if not hasattr(o, "__supertype__"):
                break
            o = o.__supertype__
        return o
    NTnone = typing.NewType("NTnone", None); NTNTnone = typing.NewType("NTNTnone", NTnone)
    NTzero = typing.NewType("NTzero", typing.Literal[0]); NTopt = typing.NewType("NTopt", typing.Optional[int])
    extra = [("NewType(None)", NTnone), ("NewType(NewType(None))", NTNTnone), ("NewType(Literal[0])", NTzero), ("NewType(Optional[int])", NTopt)]
    for n, o in [(n, objs[n][0]) for n in names if hasattr(objs[n][0], "__supertype__")] + extra:
        clear_typelib_caches()
        a, exc = ask(inspection.resolve_supertype, o)
        b, _ = ask(inspection.resolve_supertype, o)
        events.append({"ev": "accessor", "expect": show(chain_end(o)), "got": "raised" if a == "raised" else show(a),
                       "again": "raised" if b == "raised" else show(b)})
        meta.append({"p": "resolve_supertype", "obj": n, "exc": exc or ""})
    # name / qualname against the runtime's own attributes; ishashable / isproperty / isdescriptor over an instance pool
    import functools
    for n in names:
        o, grp = objs[n]
        rn = getattr(o, "__name__", None)
        if not isinstance(rn, str) or isinstance(o, typing.ForwardRef) or type(o) is typing.TypeVar:
            continue
        for fnname, expect in (("name", rn),) + ((("qualname", o.__qualname__),) if inspect.isclass(o) and o.__module__ != "typing" else ()):
            fn = getattr(inspection, fnname)
            clear_typelib_caches()
            a, exc = ask(fn, o)
            b, _ = ask(fn, o)
            events.append({"ev": "accessor", "expect": show(expect), "got": "raised" if a == "raised" else show(a), "again": "raised" if b == "raised" else show(b)})
            meta.append({"p": fnname, "obj": n, "exc": exc or ""})

    class _AttrBag(dict):
        __getattr__ = dict.get

    class _Proxy:
        def __getattr__(self, name):
            return lambda *a, **k: None

    class _K:
        __slots__ = ("a",)
        @property
        def p(self): return 1
        @functools.cached_property
        def cp(self): return 2
        def m(self): pass
        @classmethod
        def c(cls): pass
        @staticmethod
        def s(): pass
    pool = {"str": "", "frozenset": frozenset(), "list": [], "dict": {}, "tuple_with_list": (1, [2]), "int": 1, "None": None, "set": set(),
            "bytearray": bytearray(), "slice": slice(1), "function": _K.m, "instance": _K(), "property": _K.__dict__["p"],
            "cached_property": _K.__dict__["cp"], "plain_function": _K.__dict__["m"], "classmethod": _K.__dict__["c"],
            "staticmethod": _K.__dict__["s"], "slot_descriptor": _K.__dict__["a"], "class": _K, "date": datetime.date(2020, 1, 1),
            # values whose attribute access never fails (a catch-all __getattr__): judged by their class, like the runtime does
            "attr_bag": _AttrBag(a=1), "proxy": _Proxy()}
    for n, x in pool.items():
        for fnname, expect in (("ishashable", isinstance(x, cabc.Hashable)),
                               ("isproperty", isinstance(x, (property, functools.cached_property))),
                               ("isdescriptor", any(m in dir(x) for m in ("__get__", "__set__", "__delete__", "__set_name__")))):
            fn = getattr(inspection, fnname)
            a, exc = ask(fn, x)
            b, _ = ask(fn, x)
            events.append({"ev": "accessor", "expect": show(bool(expect)), "got": "raised" if a == "raised" else show(bool(a)),
                           "again": "raised" if b == "raised" else show(bool(b))})
            meta.append({"p": fnname, "obj": "instance:" + n, "exc": exc or ""})
    # the same questions about short-lived objects that cannot be weakly referenced (properties, instances of slotted classes,
    # small tuples): made, asked about and dropped in turn -- CPython hands the address of a dead object to the next one
    class _SlotDesc:
        __slots__ = ("v",)
        def __get__(self, o, t=None): return 1
    class _SlotPlain:
        __slots__ = ("v",)
    makers = [("property", lambda: property(lambda self: 1), True), ("slotted_descriptor", _SlotDesc, True),
              ("slotted_plain", _SlotPlain, False), ("tuple", lambda: (1, 2), False)]
    for k in range(240):
        n, mk, expect = makers[(k * 7 + k // 4) % len(makers)]
        x = mk()
        a, exc = ask(inspection.isdescriptor, x)
        del x
        if k < 8 or a != expect:
            events.append({"ev": "accessor", "expect": show(bool(expect)), "got": "raised" if a == "raised" else show(bool(a)),
                           "again": "raised" if a == "raised" else show(bool(a))})
            meta.append({"p": "isdescriptor", "obj": f"short-lived:{n}#{k}", "exc": exc or ""})
    # signature helpers against inspect / typing
    def _f1(a, /, b: int, *c: str, d: float = 1.0, **e): pass
    def _f2(x: "int" = 3) -> str: return ""
    sigpool = {"function:all_kinds": _f1, "function:string_annotation": _f2}
    for n in ("DC", "FDC", "SDC", "NT", "CNT", "Plain", "Empty", "SubDC", "GDC", "Box"):
        sigpool["class:" + n] = objs[n][0]
    for n, o in sigpool.items():
        try:
            expect = str(inspect.signature(o))
        except (ValueError, TypeError):
            continue
        a, exc = ask(lambda x: str(inspection.signature(x)), o)
        b, _ = ask(lambda x: str(inspection.cached_signature(x)), o)
        events.append({"ev": "accessor", "expect": expect, "got": a, "again": b})
        meta.append({"p": "signature", "obj": n, "exc": exc or ""})
    for n in ("TD", "TDN", "TDReq", "TDInh", "Page", "TDMany"):
        o = objs[n][0]
        # (names in declaration order -- the order typing.get_type_hints gives --, and which of them are required)
        expect = show((list(typing.get_type_hints(o)), sorted(o.__required_keys__)))

        def td(x):
            ps = inspection.signature(x).parameters
            return show((list(ps), sorted(k for k, p in ps.items() if p.default is inspect.Parameter.empty)))
        a, exc = ask(td, o)
        b, _ = ask(td, o)
        events.append({"ev": "accessor", "expect": expect, "got": a, "again": b})
        meta.append({"p": "signature", "obj": "typeddict:" + n, "exc": exc or ""})
    for n in ("DC", "FDC", "SDC", "NT", "TD", "TDN", "TDReq", "TDInh", "Plain", "SubDC", "Level", "Empty"):
        o = objs[n][0]
        expect = show(sorted((k, show(v)) for k, v in typing.get_type_hints(o).items()))
        if not typing.get_type_hints(o):
            continue            # without hints the helpers fall back to the signature's parameters, by their own documentation
        for fnname in ("get_type_hints", "cached_type_hints"):
            a, exc = ask(lambda x: show(sorted((k, show(v)) for k, v in getattr(inspection, fnname)(x).items())), o)
            b, _ = ask(lambda x: show(sorted((k, show(v)) for k, v in getattr(inspection, fnname)(x).items())), o)
            events.append({"ev": "accessor", "expect": expect, "got": a, "again": b})
            meta.append({"p": fnname, "obj": n, "exc": exc or ""})
    # implementation-shaped layer: which routine class the two factories choose for each catalogue object
    import typelib
    ndisp = 0
    for n in names:
        o, grp = objs[n]
        if isinstance(o, typing.ForwardRef) or type(o) is typing.TypeVar or typing.get_origin(o) in (typing.Final, typing.ClassVar) \
                or isinstance(o, typing.TypeAliasType) or hasattr(o, "__supertype__"):
            continue                       # the tables see unwrapped types only
        try:
            cu, cm = type(typelib.unmarshaller(o)), type(typelib.marshaller(o))
        except Exception:
            continue
        # every name the routine class goes by in its module (DateMarshaller = ToISOTimeMarshaller, ...)
        import typelib.unmarshals.api as uapi, typelib.unmarshals.routines as ur, typelib.marshals.api as mapi, typelib.marshals.routines as mr
        us = sorted({k.replace("Unmarshaller", "") for mod in (ur, uapi) for k, v in vars(mod).items() if v is cu or typing.get_origin(v) is cu}) or [cu.__name__]
        ms = sorted({k.replace("Marshaller", "") for mod in (mr, mapi) for k, v in vars(mod).items() if v is cm or typing.get_origin(v) is cm}) or [cm.__name__]
        events.append({"ev": "dispatch", "f": facts(o), "us": us, "ms": ms})
        meta.append({"p": "dispatch", "obj": n, "exc": ""})
        ndisp += 1
    tres, rejects = tlc.validate_trace("Dispatch_Trace", "Dispatch_Trace.cfg", events, timeout=3600)
    drift = [{"obj": meta[p["drift"] - 1]["obj"], "what": p["what"]} for p in tres.printed if isinstance(p, dict) and "drift" in p]
    viol = []
    for r in rejects:
        e, m = events[r["rej"] - 1], meta[r["rej"] - 1]
        viol.append(Violation(clause=r["clause"], case=m, fields={"p": m["p"], "obj": m["obj"], "exc": m["exc"]},
                              msg=f"{m['p']}({m['obj']}) -> {e.get('ans', e.get('got', e.get('answers')))} expected {e.get('expect', '')} {m['exc']}"))
    asserted = sum(1 for e in events if e["ev"] == "pred")
    cov = {"evaluations": len(events), "traces_validated_against_impl": len(events),
           "distinct_nontrivial": len({(m["p"], m["obj"]) for m in meta}), "objects": len(objs), "predicates": len(PREDICATES),
           "explanation": "A catalogue differential: every predicate is a TLA+ definition (spec/Dispatch.tla) over primitive facts about the "
                          "object extracted with the standard library only (typing.get_origin/get_args, issubclass against ABCs/bases, "
                          "dataclasses/typing helpers); TLC evaluates Def(p, facts) for each recorded call and checks agreement, no raise "
                          "inside the domain, stability across calls (second pass in reverse object order so that ==-equal twins meet the "
                          "memos both ways), equality of answers across spellings of one type, origin()/args() against typing, and that "
                          "origin() of a collection annotation is an instantiable class of that kind. TLC contributes definitions and "
                          "evaluation, not state exploration.",
           "rule": "35 predicates x ~150 catalogue objects (builtins and stdlib types, collections.abc ABCs, typing aliases bare and "
                   "parameterised in both spellings, user classes of every structured flavour and subclasses, unions/Optional in all "
                   "spellings, Literal, Final, ClassVar, TypeVar, Callable, Any, ForwardRef, NewType/alias chains)",
           "samples": [dict(meta[100], event=events[100])]}
    cov["dispatch_rows_checked_on_objects"] = ndisp
    return Outcome(level="other", coverage=cov, violations=viol, impl_drift=drift,
                   assumptions=["predicates of the _safe_issubclass family are asserted on plain classes only (the dispatch tables pass them "
                                "unwrapped types); answers marked '?' in Dispatch.tla are outside the asserted domain"])


def replay(ctx: Ctx, rep: dict) -> Outcome:
    from typelib.py import inspection
    m = rep["case"]
    o = catalogue().get(m["obj"], (None, None))[0]
    if m["p"] in PREDICATES and o is not None:
        try:
            print("  ", m["p"], m["obj"], "->", getattr(inspection, m["p"])(o), facts(o))
        except Exception as e:
            print("  ", m["p"], m["obj"], "raised", repr(e))
    return run(ctx)
