"""C18 -- generic item/value iteration is lossless and non-destructive (spec/Iter.tla)."""
from __future__ import annotations

import collections
import collections.abc
import types

from .. import tlc
from ..core import Ctx, Outcome, Violation
from ..terms import clear_typelib_caches, vkey

ONESHOT = {"gen", "iter"}
_CLASSES: dict = {}


def _elem(shape, i, kind):
    if shape == "s":
        return 200 + i
    if shape == "z":
        return [None, 0, "", 0.0, []][(i - 1) % 5] if kind not in ("set", "frozenset") else [None, 0, "", frozenset(), b""][(i - 1) % 5]      # distinct, hashable
    if shape == "e":
        return ()
    if shape == "p":
        return (f"pk{i}", 300 + i)
    if shape == "l":
        return [f"pk{i}", 300 + i]
    if shape == "t":
        return (400 + i, 400 + i, 400 + i)
    if shape == "s2":
        return chr(96 + i) + "x"
    if shape == "c":
        return (96 + i) if kind == "bytes" else chr(96 + i)
    raise ValueError(shape)


def _cls(kind, n):
    key = (kind, 0 if kind == "varsonly" else n)
    if key in _CLASSES:
        return _CLASSES[key]
    fields = [f"f{i}" for i in range(1, n + 1)]
    # every class of the battery has the same name and lives in a module of the same name (rows of different tables, a class
    # statement run again): classes are told apart by identity, never by their qualified name
    name = "Row"
    ns: dict = {}
    if kind in ("dc", "dcslots"):
        body = "".join(f"    {f}: typing.Any\n" for f in fields)
        body += "    _p: int = 0\n    cv: typing.ClassVar[int] = 9\n"
        deco = "@dataclasses.dataclass(slots=True)" if kind == "dcslots" else "@dataclasses.dataclass"
        src = f"import dataclasses, typing\n{deco}\nclass {name}:\n{body}"
    elif kind in ("dcchild", "dcslotschild"):
        # inherited fields first: the base declares the first half (rounded up), the child the rest
        deco = "@dataclasses.dataclass(slots=True)" if kind == "dcslotschild" else "@dataclasses.dataclass"
        nb = (n + 1) // 2
        bbody = "".join(f"    {f}: typing.Any\n" for f in fields[:nb]) or "    pass\n"
        cbody = "".join(f"    {f}: typing.Any\n" for f in fields[nb:]) or "    pass\n"
        src = f"import dataclasses, typing\n{deco}\nclass {name}_base:\n{bbody}{deco}\nclass {name}({name}_base):\n{cbody}"
    elif kind == "dcfalsy":
        body = "".join(f"    {f}: typing.Any\n" for f in fields) or "    pass\n"
        src = (f"import dataclasses, typing\n@dataclasses.dataclass\nclass {name}:\n{body}"
               "    def __bool__(self): return False\n    def __len__(self): return 0\n")
    elif kind == "ntfalsy":
        body = "".join(f"    {f}: typing.Any\n" for f in fields) or "    pass\n"
        src = f"import typing\nclass {name}(typing.NamedTuple):\n{body}    def __bool__(self): return False\n"
    elif kind == "plaindesc":
        # every member is a property over a raw entry of the same name in the instance __dict__ (what the attribute returns is
        # the member's value; the raw entry is a wrapper around it)
        body = "".join(f"    {f}: typing.Any\n" for f in fields)
        args = "".join(f", {f}" for f in fields)
        init = "".join(f"        self.__dict__[{f!r}] = ('raw', {f})\n" for f in fields) or "        pass\n"
        props = "".join(f"    {f} = property(lambda self: self.__dict__[{f!r}][1], lambda self, v: self.__dict__.__setitem__({f!r}, ('raw', v)))\n"
                        for f in fields)
        src = f"import typing\nclass {name}:\n{body}    def __init__(self{args}):\n{init}{props}"
    elif kind == "plain":
        body = "".join(f"    {f}: typing.Any\n" for f in fields) + "    _p: int\n"
        args = "".join(f", {f}" for f in fields)
        init = "".join(f"        self.{f} = {f}\n" for f in fields) + "        self._p = 0\n"
        src = f"import typing\nclass {name}:\n{body}    def __init__(self{args}):\n{init}"
    elif kind == "slotsonly":
        slots = tuple(fields) + ("_p",)
        src = f"class {name}:\n    __slots__ = {slots!r}\n    def __init__(self):\n        self._p = 0\n"
    elif kind == "slotsonlychild":
        slots = tuple(fields) + ("_p",)
        src = (f"class {name}_base:\n    __slots__ = {slots!r}\n    def __init__(self):\n        self._p = 0\n"
               f"class {name}({name}_base):\n    pass\n")
    elif kind == "slotsonlygrand":
        nb = (n + 1) // 2
        src = (f"class {name}_base:\n    __slots__ = {tuple(fields[:nb]) + ('_p',)!r}\n    def __init__(self):\n        self._p = 0\n"
               f"class {name}({name}_base):\n    __slots__ = {tuple(fields[nb:])!r}\n")
    elif kind == "plainchild":
        # the base declares the first half of the members with annotations; the child declares the rest, the last of them with
        # an annotation that names nothing (the hints of the class cannot be evaluated as a whole)
        nb = (n + 1) // 2
        bbody = "".join(f"    {f}: typing.Any\n" for f in fields[:nb]) or "    pass\n"
        cbody = "".join(f"    {f}: typing.Any\n" for f in fields[nb:-1]) + "".join(f"    {f}: 'NoSuchName'\n" for f in fields[nb:][-1:])
        args = "".join(f", {f}" for f in fields)
        init = "".join(f"        self.{f} = {f}\n" for f in fields) or "        pass\n"
        src = (f"import typing\nclass {name}_base:\n{bbody}class {name}({name}_base):\n{cbody}    def __init__(self{args}):\n{init}")
    elif kind == "plaingrand":
        # a diamond on top (one member in the shared root when there are three or more), then a chain: the members are declared by
        # the root, the two arms, and the class itself (the last one)
        # (typing.get_type_hints walks the MRO backwards: root, second arm, first arm, the class -- the members are dealt out
        # in that order so that the declared order is f1..fn)
        head, last = fields[:-1], fields[-1:]
        parts = [head[0:1], head[2:3], head[1:2], head[3:] + last]       # root, arm a, arm b, the class itself
        decl = lambda fs: "".join(f"    {f}: typing.Any\n" for f in fs) or "    pass\n"
        args = "".join(f", {f}" for f in fields)
        init = "".join(f"        self.{f} = {f}\n" for f in fields) or "        pass\n"
        src = (f"import typing\nclass {name}_root:\n{decl(parts[0])}class {name}_a({name}_root):\n{decl(parts[1])}"
               f"class {name}_b({name}_root):\n{decl(parts[2])}class {name}_mid({name}_a, {name}_b):\n    pass\n"
               f"class {name}({name}_mid):\n{decl(parts[3])}    def __init__(self{args}):\n{init}")
    elif kind == "varsonly":
        src = f"class {name}:\n    pass\n"
    elif kind == "nt":
        body = "".join(f"    {f}: typing.Any\n" for f in fields) or "    pass\n"
        src = f"import typing\nclass {name}(typing.NamedTuple):\n{body}"
    elif kind == "cmapfalsy":
        src = (f"import collections.abc\nclass {name}(collections.abc.Mapping):\n"
               "    def __init__(self, d): self._d = dict(d)\n"
               "    def __getitem__(self, k): return self._d[k]\n"
               "    def __iter__(self): return iter(self._d)\n"
               "    def __len__(self): return len(self._d)\n"
               "    def __bool__(self): return False\n")
    elif kind == "dictget":
        src = (f"class {name}(dict):\n    def __getitem__(self, k):\n        self.reads = getattr(self, 'reads', 0) + 1\n"
               "        return ('got', dict.__getitem__(self, k))\n")
    elif kind == "cmap":
        src = (f"import collections.abc\nclass {name}(collections.abc.Mapping):\n"
               "    def __init__(self, d): self._d = dict(d)\n"
               "    def __getitem__(self, k): return self._d[k]\n"
               "    def __iter__(self): return iter(self._d)\n"
               "    def __len__(self): return len(self._d)\n")
    elif kind == "citer":
        src = (f"class {name}:\n    def __init__(self, xs): self._xs = list(xs)\n"
               "    def __iter__(self): return iter(self._xs)\n")
    else:
        raise ValueError(kind)
    import sys
    mod = types.ModuleType("verif_iter_rows")
    sys.modules[mod.__name__] = mod
    exec(compile(src, "<verif-generated>", "exec", dont_inherit=True), mod.__dict__)
    _CLASSES[key] = mod.__dict__[name]
    return _CLASSES[key]


def materialise(kind, elems):
    n = len(elems)
    es = [_elem(s, i + 1, kind) for i, s in enumerate(elems)]
    if kind in ("dict", "odict", "mproxy", "cmap", "cmapfalsy", "dictget"):
        d = {f"k{i + 1}": e for i, e in enumerate(es)}
        return {"dict": lambda: d, "odict": lambda: collections.OrderedDict(d),
                "mproxy": lambda: types.MappingProxyType(d), "cmap": lambda: _cls("cmap", 0)(d),
                "cmapfalsy": lambda: _cls("cmapfalsy", 0)(d), "dictget": lambda: _cls("dictget", 0)(d)}[kind](), es
    if kind in ("dc", "dcslots", "plain", "nt", "dcchild", "dcslotschild", "plainchild", "plaingrand", "dcfalsy", "ntfalsy", "plaindesc"):
        return _cls(kind, n)(*es), es
    if kind in ("slotsonly", "varsonly", "slotsonlychild", "slotsonlygrand"):
        o = _cls(kind, n)()
        for i, e in enumerate(es):
            setattr(o, f"f{i + 1}", e)
        if kind == "varsonly":
            o._hidden = 1
        return o, es
    if kind == "str":
        return "".join(es), es
    if kind == "bytes":
        return bytes(es), es
    if kind in ("list", "tuple", "set", "frozenset"):
        return {"list": list, "tuple": tuple, "set": set, "frozenset": frozenset}[kind](es), es
    if kind == "deque":
        return collections.deque(es), es
    if kind == "gen":
        return (e for e in es), es
    if kind == "iter":
        return iter(list(es)), es
    if kind == "citer":
        return _cls("citer", 0)(es), es
    raise ValueError(kind)


def _tagger(es, elems):
    table = {}
    for i, (e, s) in enumerate(zip(es, elems), 1):
        table[(type(e).__name__, repr(e))] = f"e{i}"
        if s in ("p", "l"):
            table[(type(e[1]).__name__, repr(e[1]))] = f"pv{i}"

    def tag(v):
        return table.get((type(v).__name__, repr(v)), "?" + repr(v)[:30])
    return tag


def _keytag(a):
    if isinstance(a, str):
        return a
    if isinstance(a, int) and not isinstance(a, bool):
        return f"i{a}"
    return "?" + repr(a)[:30]


def observe(kind, elems):
    from typelib import serdes
    x, es = materialise(kind, elems)
    tag = _tagger(es, elems)
    before = None if kind in ONESHOT else vkey(x)
    ev = {"kind": kind, "elems": list(elems), "items": [], "iraised": "", "values": [], "vraised": "",
          "unchanged": True}
    try:
        items = []
        for it in serdes.iteritems(x):
            if isinstance(it, (tuple, list)) and len(it) == 2:
                items.append([_keytag(it[0]), tag(it[1])])
            else:
                items.append(["raw", tag(it)])
        ev["items"] = items
    except BaseException as e:  # StopIteration is not an Exception subclass of interest; record all
        ev["iraised"] = type(e).__name__
    if kind in ONESHOT:
        x, es = materialise(kind, elems)
        tag = _tagger(es, elems)
    try:
        ev["values"] = [tag(v) for v in serdes.itervalues(x)]
    except BaseException as e:
        ev["vraised"] = type(e).__name__
    if before is not None:
        ev["unchanged"] = vkey(x) == before
    return ev


def _violations(rejects, events):
    out = []
    for r in rejects:
        e = events[r["rej"] - 1]
        first = e["elems"][0] if e["elems"] else "-"
        allpairs = bool(e["elems"]) and all(s in ("p", "l") for s in e["elems"])
        out.append(Violation(
            clause="Iter." + r["clause"],
            case={"kind": e["kind"], "elems": e["elems"], "pass": e.get("pass", 1)},
            fields={"kind": e["kind"], "first": first, "n": len(e["elems"]),
                    "mixed_first_pair": (not allpairs) and (
                        first in ("p", "l") if e["kind"] not in ("set", "frozenset")
                        else any(s in ("p", "l") for s in e["elems"])),
                    "raised": e["iraised"] or e["vraised"]},
            msg=f"{e['kind']}{e['elems']}: items={e['items'] or e['iraised']} values={e['values'] or e['vraised']} "
                f"want items={r['want']} values={r['wantv']}"))
    return out


def run(ctx: Ctx) -> Outcome:
    quick = ctx.quick
    base = open(tlc.SPEC_DIR + "/MC_Iter.cfg").read()
    if not quick:
        base = base.replace("MaxLen = 3", "MaxLen = 4")
    res = tlc.must(tlc.run("Iter", cfg_text=base, workers=8), "Iter model")
    strict = tlc.run("Iter", cfg_text=base.replace('Excused = {"mixed_first_pair"}', "Excused = {}"), workers=4)
    if strict.ok or "Refines" not in strict.stdout:
        raise tlc.MachineryError("Iter model not sensitive: without the excused deviation Refines must fail")
    emit = tlc.must(tlc.run("Iter", cfg_text=base.replace("Emit = FALSE", "Emit = TRUE"), workers=1), "Iter emit")
    cases = [p for p in emit.printed if isinstance(p, dict) and "kind" in p]
    if len(cases) * 2 != emit.distinct:
        raise tlc.MachineryError(f"Iter emit: {len(cases)} cases for {emit.distinct} states")
    clear_typelib_caches()
    events = []
    for pas, order in ((1, cases), (2, cases[::-1])):
        for c in order:
            ev = observe(c["kind"], c["elems"])
            ev["pass"] = pas
            events.append(ev)
            # spec -> code: the emitted reference answer is what the trace spec recomputes; keep both
    slim = [{k: e[k] for k in ("kind", "elems", "items", "iraised", "values", "vraised", "unchanged")} for e in events]
    tres, rejects = tlc.validate_trace("Iter_Trace", "Iter_Trace.cfg", slim)
    viol = _violations(rejects, events)
    asserted = [c for c in cases if c["asserted"]]
    nontrivial = {(c["kind"], tuple(c["elems"])) for c in asserted if len(c["elems"]) >= 1}
    cov = {
        "states": res.distinct, "transitions": res.generated, "exhaustive": True,
        "traces_validated_against_impl": len(events), "evaluations": len(events),
        "distinct_nontrivial": len(nontrivial),
        "rule": "every well-formed input [kind, element shapes] up to the length bound, emitted by TLC, materialised "
                "and run twice (second pass in reverse class order, strategy memo warm); non-trivial = asserted and non-empty",
        "cases_emitted": len(cases), "cases_unasserted": len(cases) - len(asserted),
        "samples": [events[len(events) // 5], events[len(events) // 2]],
    }
    return Outcome(level="model_checking", coverage=cov, violations=viol,
                   assumptions=["iterables containing 2-character strings are outside the asserted domain (ambiguous)",
                                "set/frozenset outputs are compared as multisets",
                                "one-shot iterators are exempt from the non-modification clause"])


def replay(ctx: Ctx, rep: dict) -> Outcome:
    c = rep["case"]
    ev = observe(c["kind"], c["elems"])
    print("  ", ev)
    _, rejects = tlc.validate_trace("Iter_Trace", "Iter_Trace.cfg",
                                    [{k: ev[k] for k in ("kind", "elems", "items", "iraised", "values", "vraised", "unchanged")}])
    return Outcome(level="model_checking", coverage={"evaluations": 1}, violations=_violations(rejects, [ev]))
