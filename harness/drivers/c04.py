"""C04 -- scalar values survive their text and numeric wire forms exactly (spec/Scalars.tla)."""
from __future__ import annotations

import datetime
import decimal
import enum
import fractions
import json
import os
import pathlib
import random
import re
import time
import uuid
import warnings

from .. import carriers, tlc, valuestream as vs
from ..core import Ctx, Outcome, Violation
from ..terms import clear_typelib_caches, project

UTC = datetime.timezone.utc
CARRIERS = carriers.CARRIERS
DUR = re.compile(r"^(?P<neg>-)?P(?:(?P<y>\d+)Y)?(?:(?P<mo>\d+)M)?(?:(?P<w>\d+)W)?(?:(?P<d>\d+)D)?"
                 r"(?P<T>T(?:(?P<h>\d+)H)?(?:(?P<mi>\d+)M)?(?:(?P<s>\d+)(?:\.(?P<f>\d{1,6}))?S)?)?$")


class Color(enum.Enum):
    RED = 1
    BLUE = "blue"


class Level(enum.IntEnum):
    LOW = 1
    HIGH = 2


class Tag(str, enum.Enum):
    A = "a"
    NUM = "1"


def carry(c, s):
    return carriers.carry(c, s)


def tz(minutes):
    return datetime.timezone(datetime.timedelta(minutes=minutes))


def tokenise(text):
    """Independent ISO-8601 duration tokenizer (regex only; lenient about a dangling 'T' so that it can be reported)."""
    m = DUR.match(text)
    if not m:
        return None
    g = m.groupdict()
    n = lambda k: int(g[k]) if g[k] else 0          # noqa: E731
    us = int((g["f"] or "").ljust(6, "0")) if g["f"] else 0
    return {"neg": bool(g["neg"]), "y": n("y"), "mo": n("mo"), "w": n("w"), "d": n("d"), "h": n("h"), "mi": n("mi"), "s": n("s"),
            "us": us, "hasT": g["T"] is not None,
            "dateparts": sum(1 for k in ("y", "mo", "w", "d") if g[k] is not None),
            "timeparts": sum(1 for k in ("h", "mi", "s") if g[k] is not None)}


def pools(rng, nrand):
    """kind -> (annotation, values, printer).  Boundary values first, then seeded random ones."""
    from hypothesis import given, seed, settings, strategies as st, HealthCheck

    def draw(strategy, n):
        out = []

        @settings(max_examples=n, database=None, derandomize=True, suppress_health_check=list(HealthCheck), deadline=None)
        @given(strategy)
        def collect(x):
            out.append(x)
        try:
            collect()
        except Exception:
            pass
        return out[:n]
    offs = [0, 330, -210, 60, -480, 840, -720, 1439, -1439, 1, -1]
    pools_ = {
        "int": (int, [0, 1, -1, 7, 10, 2**31, -(2**63), 10**30, -(10**40)] + draw(st.integers(), nrand), str),
        "float": (float, [0.0, -0.0, 1.0, -1.5, 0.1, 1e16, 1e300, 5e-324, 2.2250738585072014e-308, 123456789.123456789] +
                  draw(st.floats(allow_nan=False, allow_infinity=False), nrand), repr),
        "Decimal": (decimal.Decimal, [decimal.Decimal(s) for s in ("0", "-0", "1.50", "1E+10", "1e-30", "0.1", "-123.456", "1E+400", "12345678901234567890.123456789")] +
                    draw(st.decimals(allow_nan=False, allow_infinity=False), nrand), str),
        "Fraction": (fractions.Fraction, [fractions.Fraction(1, 3), fractions.Fraction(-7, 2), fractions.Fraction(5), fractions.Fraction(0), fractions.Fraction(3, 2),
                                         fractions.Fraction(10**20, 3)] + draw(st.fractions(), nrand), str),
        "UUID": (uuid.UUID, [uuid.UUID(int=0), uuid.UUID(int=2**128 - 1), uuid.UUID("12345678-1234-5678-1234-567812345678")] + draw(st.uuids(), nrand), str),
        "PurePosixPath": (pathlib.PurePosixPath, [pathlib.PurePosixPath(p) for p in ("a/b", "/abs/x", ".", "1", "a b/c", "/", "../x", "1.5", "null", "[1]", "notes ", " draft/x.txt", "a\nb", "\tx")], str),
        "Path": (pathlib.Path, [pathlib.Path(p) for p in ("a/b", "/abs/x", ".", "7", "notes ", " draft.txt", "x\n")], str),
        "Color": (Color, list(Color), None), "Level": (Level, list(Level), None), "Tag": (Tag, list(Tag), None),
        "date": (datetime.date, [datetime.date(1970, 1, 1), datetime.date(2020, 2, 29), datetime.date.min, datetime.date.max, datetime.date(1969, 12, 31),
                                 datetime.date(1, 1, 2), datetime.date(2038, 1, 19)] + draw(st.dates(), nrand), lambda v: v.isoformat()),
        "datetime": (datetime.datetime,
                     [datetime.datetime(1970, 1, 1, tzinfo=UTC), datetime.datetime(2020, 2, 29, 12, 30, 15, 999999, tzinfo=tz(330)),
                      datetime.datetime(1999, 12, 31, 23, 59, 59, tzinfo=tz(-210)), datetime.datetime(2021, 6, 1, 0, 0, 0, 1, tzinfo=tz(-480)),
                      datetime.datetime(9999, 12, 31, 23, 59, 59, 999999, tzinfo=UTC), datetime.datetime(1, 1, 1, tzinfo=UTC),
                      datetime.datetime(2020, 11, 1, 1, 30, tzinfo=tz(840), fold=1), datetime.datetime(1800, 5, 5, 5, 5, 5, 5, tzinfo=tz(-1439)),
                      datetime.datetime(2500, 7, 7, 7, 7, 7, 123456, tzinfo=tz(1439))] +
                     [x.replace(tzinfo=tz(rng.choice(offs))) for x in draw(st.datetimes(min_value=datetime.datetime(2, 1, 1), max_value=datetime.datetime(9998, 12, 31)), nrand)],
                     lambda v: v.isoformat()),
        "time": (datetime.time, [datetime.time(0, 0, tzinfo=UTC), datetime.time(12, 30, tzinfo=tz(300)), datetime.time(23, 59, 59, 999999, tzinfo=tz(-480)),
                                 datetime.time(1, 2, 3, 4, tzinfo=tz(330)), datetime.time(6, 0, tzinfo=tz(-1439))] +
                 [x.replace(tzinfo=tz(rng.choice(offs))) for x in draw(st.times(), nrand)], lambda v: v.isoformat()),
        "timedelta": (datetime.timedelta,
                      [datetime.timedelta(0), datetime.timedelta(seconds=1), datetime.timedelta(days=7), datetime.timedelta(days=8, seconds=1),
                       datetime.timedelta(days=-1), datetime.timedelta(seconds=59, microseconds=999999), datetime.timedelta(days=400),
                       datetime.timedelta(hours=1, minutes=1), datetime.timedelta(microseconds=5), datetime.timedelta(days=14, hours=3),
                       datetime.timedelta(days=-3, seconds=7), datetime.timedelta(days=999999999), datetime.timedelta(days=-999999999),
                       datetime.timedelta(days=999999999, seconds=86399, microseconds=999999), datetime.timedelta(microseconds=-1),
                       datetime.timedelta(days=365, seconds=3661, microseconds=1)] + draw(st.timedeltas(), nrand), None),
    }
    return pools_


def twin(kind, v):
    """An equal-but-differently-represented value, used to warm the value memos before the call under test."""
    if kind == "datetime":
        return v.astimezone(tz(-60 if v.utcoffset() != datetime.timedelta(minutes=-60) else 120)) if 2 < v.year < 9998 else v
    if kind == "time":
        return v
    if kind == "Decimal":
        try:
            return v * decimal.Decimal("1.0")
        except decimal.InvalidOperation:
            return v
    if kind == "Fraction" and v.denominator in (1, 2, 4, 5, 8, 10):
        return decimal.Decimal(v.numerator) / decimal.Decimal(v.denominator)
    if kind == "int":
        return float(v) if abs(v) < 2**53 else v
    if kind == "float" and v == int(v) and abs(v) < 2**53:
        return int(v)
    return v


def collect(ctx: Ctx, nrand: int):
    import typelib
    from typelib import serdes
    rng = random.Random(ctx.seed)
    warnings.simplefilter("ignore")
    events, meta = [], []

    def add(ev, **m):
        events.append(ev); meta.append(m)
    for zone in ("UTC", "XXX-5:30"):
        os.environ["TZ"] = zone
        time.tzset()
        clear_typelib_caches()
        P = pools(rng, nrand)
        for kind, (ann, vals, printer) in P.items():
            for i, v in enumerate(vals):
                vt = project(v)
                warm = twin(kind, v)
                if i % 2 == 1 and warm is not v:      # every other value: warm the memos with an equal twin first
                    try:
                        typelib.marshal(warm)
                        if isinstance(warm, (datetime.datetime, datetime.time, datetime.timedelta)):
                            serdes.isoformat(warm)
                            typelib.unmarshal(str, warm)          # the temporal -> text routes have their own code path
                            typelib.unmarshal(bytes, warm)
                    except Exception:
                        pass
                # ---- what marshalling emits
                out, wtext = vs.out_of(typelib.marshal, v, t=ann)
                if kind == "timedelta":
                    tok = tokenise(wtext) if isinstance(wtext, str) else None
                    add({"ev": "emit", "K": kind, "out": out, "dur": True, "tokenised": tok is not None,
                         "tok": tok or {"neg": False, "y": 0, "mo": 0, "w": 0, "d": 0, "h": 0, "mi": 0, "s": 0, "us": 0, "hasT": False, "dateparts": 0, "timeparts": 0},
                         "triple": [v.days, v.seconds, v.microseconds], "pytext": vt, "back": vt, "v": vt},
                        kind=kind, what="emit", value=repr(v)[:80], zone=zone, text=str(wtext)[:60])
                    canon = wtext if isinstance(wtext, str) else None
                elif printer is None:       # enums marshal to their value
                    add({"ev": "emit", "K": kind, "out": out, "dur": False, "tokenised": True, "tok": {}, "triple": [0, 0, 0],
                         "pytext": project(v.value), "back": vt, "v": vt}, kind=kind, what="emit", value=repr(v), zone=zone, text=repr(wtext))
                    canon = str(v.value)
                else:
                    canon = printer(v)
                    back = {"k": "opaque", "cls": "unreadable"}
                    try:          # the independent reader: the standard library's own parser for that text
                        reader = {"int": int, "float": float, "Decimal": decimal.Decimal, "Fraction": fractions.Fraction, "UUID": uuid.UUID,
                                  "PurePosixPath": pathlib.PurePosixPath, "Path": pathlib.Path, "date": datetime.date.fromisoformat,
                                  "datetime": datetime.datetime.fromisoformat, "time": datetime.time.fromisoformat}[kind]
                        if isinstance(wtext, (str, int, float)):
                            back = project(reader(wtext) if not (kind in ("int", "float") and not isinstance(wtext, str)) else wtext)
                    except Exception:
                        pass
                    pyt = project(canon) if kind not in ("int", "float") else vt      # ints/floats are emitted as numbers
                    add({"ev": "emit", "K": kind, "out": out, "dur": False, "tokenised": True, "tok": {}, "triple": [0, 0, 0],
                         "pytext": pyt, "back": back, "v": vt}, kind=kind, what="emit", value=repr(v)[:80], zone=zone, text=str(wtext)[:60])
                # ---- canonical text, in every carrier, parses back
                if canon is not None:
                    for c in (CARRIERS if i < 12 else [rng.choice(CARRIERS)]):
                        o, _ = vs.out_of(typelib.unmarshal, ann, carry(c, canon))
                        add({"ev": "parse", "K": kind if kind in ("int", "float", "date", "datetime", "time", "timedelta") else "other", "ik": "text",
                             "out": o, "expect": vt}, kind=kind, what="text:" + c, value=repr(v)[:80], zone=zone, text=canon[:60])
                # ---- temporal -> number / text
                if kind in ("date", "datetime", "timedelta"):
                    if kind == "timedelta":
                        num = v.total_seconds()
                    elif kind == "date":
                        num = datetime.datetime(v.year, v.month, v.day, tzinfo=UTC).timestamp() if v.year > 1 else None
                    else:
                        try:
                            num = v.timestamp()
                        except (OverflowError, OSError, ValueError):
                            num = None
                    if num is not None:
                        o, _ = vs.out_of(typelib.unmarshal, float, v)
                        add({"ev": "parse", "K": "float", "ik": kind, "out": o, "expect": project(float(num))},
                            kind=kind, what="to_float", value=repr(v)[:80], zone=zone, text="")
                        o, _ = vs.out_of(typelib.unmarshal, int, v)
                        add({"ev": "parse", "K": "int", "ik": kind, "out": o, "expect": project(int(num))},
                            kind=kind, what="to_int", value=repr(v)[:80], zone=zone, text="")
                if kind in ("date", "datetime", "time", "timedelta") and canon is not None:
                    o, _ = vs.out_of(typelib.unmarshal, str, v)
                    add({"ev": "parse", "K": "str", "ik": kind, "out": o, "expect": project(canon)}, kind=kind, what="to_str", value=repr(v)[:80], zone=zone, text=canon[:60])
                    o, _ = vs.out_of(typelib.unmarshal, bytes, v)
                    add({"ev": "parse", "K": "bytes", "ik": kind, "out": o, "expect": project(canon.encode())}, kind=kind, what="to_bytes", value=repr(v)[:80], zone=zone, text=canon[:60])
        # ---- numbers -> temporals: seconds since the epoch in UTC / seconds of duration
        nums = [0, 1, -1, 86399, 86400, 1577836800, 2**31, -(2**31), 253402300799, 0.5, 1.5, -0.25, 1577836800.123456, 1e9 + 0.000001, 59.999999]
        nums += [rng.randint(-10**10, 10**11) for _ in range(nrand)] + [rng.uniform(-1e9, 4e9) for _ in range(nrand)]
        for x in nums:
            try:
                civil = datetime.datetime.fromtimestamp(x, tz=UTC)
            except (OverflowError, OSError, ValueError):
                continue
            ik = "int" if isinstance(x, int) else "float"
            for K, ann, exp in (("datetime", datetime.datetime, civil), ("date", datetime.date, civil.date()),
                                ("time", datetime.time, civil.timetz()), ("timedelta", datetime.timedelta, datetime.timedelta(seconds=x))):
                o, _ = vs.out_of(typelib.unmarshal, ann, x)
                add({"ev": "parse", "K": K, "ik": ik, "out": o, "expect": project(exp)}, kind=K, what="from_" + ik, value=repr(x), zone=zone, text="")
    # a non-negative count of seconds given as decimal digits in a text carrier is read like the number (timedelta only:
    # for dates the same digits may be a calendar form)
    for n in (0, 1, 7, 90, 1800, 3600, 86400, 2419200, 20200101, 1577836800):
        for c in CARRIERS[:4]:
            o, _ = vs.out_of(typelib.unmarshal, datetime.timedelta, carry(c, str(n)))
            add({"ev": "parse", "K": "timedelta", "ik": "int", "out": o, "expect": project(datetime.timedelta(seconds=n))},
                kind="timedelta", what="digits:" + c, value=str(n), zone="UTC", text=str(n))
    os.environ["TZ"] = "UTC"
    time.tzset()
    return events, meta


def run(ctx: Ctx) -> Outcome:
    res = tlc.must(tlc.run("MC_Scalars", "MC_Scalars.cfg", workers=4), "Scalars duration algebra")
    events, meta = collect(ctx, 20 if ctx.quick else 400)
    tres, rejects = tlc.validate_trace("Scalars_Trace", "Scalars_Trace.cfg", events, timeout=7200)
    viol = []
    for r in rejects:
        e, m = events[r["rej"] - 1], meta[r["rej"] - 1]
        trailing = bool(e.get("dur") and e.get("tokenised") and e["tok"]["hasT"] and e["tok"]["timeparts"] == 0)
        viol.append(Violation(clause=r["clause"], case=m,
                              fields={"kind": m["kind"], "what": m["what"].split(":")[0], "zone": m["zone"], "dangling_T": trailing,
                                      "raised": e["out"].get("e", ""),
                                      "long_duration": m["kind"] == "timedelta" and bool(re.search(r"days=-?\d{6,}", m["value"])),
                                      "year_edge": any(y in m["value"] for y in ("(1, 1, 1", "(9999, 12, 31", "date(1, 1, 1)", "datetime.date(9999"))},
                              msg=f"{json.dumps(m)[:220]} out={json.dumps(e['out'])[:160]} expect={json.dumps(e.get('expect') or e.get('v'))[:160]}"))
    nontrivial = {(m["kind"], m["what"], m["value"], m["zone"]) for m in meta}
    cov = {"states": res.distinct, "transitions": res.generated,
           "traces_validated_against_impl": len(events), "evaluations": len(events), "distinct_nontrivial": len(nontrivial),
           "rule": "model: duration algebra (writer tokens -> Meaning = value, Negate involutive) over an 18 x 8 x 5 boundary grid; real: per scalar "
                   "kind boundary values + seeded Hypothesis values: Python's canonical text in 8 carriers parses back (value, class, offset, "
                   "microseconds); marshalling emits Python's text and the stdlib parser reads it back; durations are tokenised by an "
                   "independent regex and judged by Meaning/WellFormed; numbers -> temporals against datetime.fromtimestamp(x, UTC); temporals "
                   "-> int/float/str/bytes; every other value after warming the memos with an equal twin; all under TZ=UTC and TZ=XXX-5:30",
           "exploration_note": "arbitrary-size ints, shortest-repr floats, Decimal exponents, Fractions, UUIDs and paths are sampled, not enumerated",
           "samples": [dict(meta[len(meta) // 2], event=events[len(events) // 2])]}
    return Outcome(level="exploration", coverage=cov, violations=viol,
                   assumptions=["Python's str()/isoformat() and the stdlib parsers are the oracle for scalar text; never typelib.serdes",
                                "time -> number depends on today's date and is not asserted"])


def replay(ctx: Ctx, rep: dict) -> Outcome:
    events, meta = collect(Ctx(pid="C04", tier="quick", seed=ctx.seed), 20)
    c = rep["case"]
    sel = [(e, m) for e, m in zip(events, meta) if m == c]
    for e, m in sel:
        print("  ", m, json.dumps(e["out"])[:200])
    ev = [e for e, _ in sel]
    if not ev:
        return Outcome(level="exploration", coverage={"evaluations": 0}, violations=[])
    _, rejects = tlc.validate_trace("Scalars_Trace", "Scalars_Trace.cfg", ev)
    return Outcome(level="exploration", coverage={"evaluations": len(ev)},
                   violations=[Violation(clause=r["clause"], case=c, fields={}, msg="") for r in rejects])
