"""C07 -- recursive and mutually recursive types work at every depth (spec/Graph.tla + Member_Trace.tla "level")."""
from __future__ import annotations

import json
import random
import sys
import threading
import warnings

from .. import tlc
from ..core import Ctx, Outcome, Violation
from ..terms import Deadline, clear_typelib_caches, with_deadline
from ..typeterms import Env
from .c09 import field_type, topo_defs

SCALAR_RAW, SCALAR_CONV = "7", 7


def reach(topo, i, seen=None):
    seen = set() if seen is None else seen
    if i in seen:
        return seen
    seen.add(i)
    for kind, j in topo[i - 1]:
        if kind != "S":
            reach(topo, j, seen)
    return seen


def cyclic_from(topo, root):
    start = root[1]
    for i in reach(topo, start):
        for kind, j in topo[i - 1]:
            if kind != "S" and i in reach(topo, j):
                return True
    return False


def finite(topo):
    """Classes that have finite values: no mandatory ('direct') edge into a class without finite values."""
    ok = set()
    changed = True
    while changed:
        changed = False
        for i, fields in enumerate(topo, 1):
            if i not in ok and all(kind != "direct" and kind != "cls" or j in ok for kind, j in fields):
                ok.add(i); changed = True
    return ok


def unroll(topo, i, depth, raw, fin, level=0):
    """Wire value of class i nested `depth` class levels deep (raw: scalars still text).  The first two levels
    branch along every edge; below that only the first recursive edge is followed, so the value is a path."""
    out = {}
    followed = False
    for n, (kind, j) in enumerate(topo[i - 1], 1):
        f = f"f{n}"
        if kind == "S":
            out[f] = SCALAR_RAW if raw else SCALAR_CONV
            continue
        go = depth > 0 and j in fin and (level < 2 or not followed)
        sub = unroll(topo, j, depth - 1, raw, fin, level + 1) if go else None
        followed |= go
        if kind in ("direct", "cls"):
            out[f] = sub if sub is not None else unroll(topo, j, 0, raw, fin, level + 1)
        elif kind == "opt":
            out[f] = sub
        elif kind in ("list", "tupv"):
            out[f] = [sub] if sub is not None else []
        elif kind == "dict":
            out[f] = {"k": sub} if sub is not None else {}
    return out


def instantiate(topo, i, tree, env):
    """The same raw value as a tree of *instances* of the generated classes whose members still hold wire values
    (text scalars): a structured source the statement lists; every level below the root must still be converted."""
    C = env.obj(f"C{i}")
    kw = {}
    for n, (kind, j) in enumerate(topo[i - 1], 1):
        f = f"f{n}"
        v = tree.get(f)
        if kind == "S" or v is None:
            kw[f] = v
        elif kind in ("direct", "cls", "opt"):
            kw[f] = instantiate(topo, j, v, env)
        elif kind in ("list", "tupv"):
            kw[f] = [instantiate(topo, j, x, env) for x in v]
        elif kind == "dict":
            kw[f] = {k: instantiate(topo, j, x, env) for k, x in v.items()}
    return C(**kw)


def wrap_root(root, inner):
    kind = root[0]
    if kind in ("cls", "direct"):
        return inner
    if kind == "opt":
        return inner
    if kind in ("list", "tupv"):
        return [inner, inner]
    if kind == "dict":
        return {"a": inner}
    raise ValueError(kind)


def levels(topo, root, result, env, maxlevels=400):
    """Walk the unmarshalled result class level by level: (level, class index, is right class, scalars converted)."""
    out = []
    kind = root[0]
    if kind in ("list", "tupv"):
        frontier = [(root[1], x) for x in result]
    elif kind == "dict":
        frontier = [(root[1], x) for x in result.values()]
    else:
        frontier = [(root[1], result)]
    lvl = 0
    while frontier and lvl < maxlevels:
        nxt = []
        for i, obj in frontier:
            if obj is None:
                continue
            C = env.obj(f"C{i}")
            isdict = isinstance(obj, dict)
            right = isinstance(obj, C) if not isdict else False
            conv = True
            for n, (k2, j) in enumerate(topo[i - 1], 1):
                f = f"f{n}"
                v = obj.get(f) if isdict else getattr(obj, f, None)
                if k2 == "S":
                    conv &= type(v) is int
                elif v is not None:
                    if k2 in ("direct", "cls", "opt"):
                        nxt.append((j, v))
                    elif k2 in ("list", "tupv"):
                        conv &= isinstance(v, (list, tuple))
                        nxt += [(j, x) for x in (v if isinstance(v, (list, tuple)) else [])]
                    elif k2 == "dict":
                        nxt += [(j, x) for x in (v.values() if isinstance(v, dict) else [])]
            out.append({"lvl": lvl, "cls": i, "right": right, "conv": conv})
        frontier = nxt
        lvl += 1
    return out


def _share(x, depth=0):
    """Make x hold one of its nested instances twice (in place: the first element of a list / value of a dict is added again);
    True if something was shared."""
    if depth > 6 or x is None:
        return False
    if isinstance(x, list):
        if x and not isinstance(x[0], (str, int, float, bool, type(None))):
            x.append(x[0])
            _share(x[0], depth + 1)
            return True
        return False
    if isinstance(x, dict):
        vals = [v for v in x.values() if not isinstance(v, (str, int, float, bool, type(None)))]
        if vals:
            x["shared_again"] = vals[0]
            _share(vals[0], depth + 1)
            return True
        return False
    if isinstance(x, tuple) and not hasattr(x, "_fields"):
        return any(_share(e, depth + 1) for e in x)
    if hasattr(x, "_fields"):
        return any(_share(e, depth + 1) for e in x)
    if hasattr(x, "__dict__") or hasattr(type(x), "__slots__"):
        names = list(vars(x)) if hasattr(x, "__dict__") else [n for n in type(x).__slots__ if hasattr(x, n)]
        return any(_share(getattr(x, n), depth + 1) for n in names)
    return False


EARLY = {"asserted": 0, "degraded_not_asserted": 0}


def observe_case(topo, root, variant, depths, events, meta, early=False, falsy=False, stdnames=False):
    import typelib
    fin = finite(topo)
    if root[1] not in fin:
        return
    defs = topo_defs(topo, variant)
    if falsy:
        # the dataclasses of the case are falsy and claim length 0 (a node whose __len__ counts its children, a status record)
        for d in defs.values():
            if d["flavour"] == "dataclass":
                d["flavour"] = "dc_falsy"
    env = Env(defs, tag="r")
    if stdnames:
        # the user's modules are named like modules of the standard library that nobody imports (a project's own profile.py,
        # token.py, queue.py): what a class is is told by the class, not by the spelling of its module's name
        env.modnames = {"m1": "sndhdr", "m2": "xdrlib"}
    if early:
        # (module-less references of one failed build compare equal to those of same-named classes of the next case and
        # meet them in the ==-keyed memos -- history across unrelated types is C12's subject: each such case starts cold)
        clear_typelib_caches()
        # history: routines of every class are asked for as soon as its class statement has run, i.e. possibly before the
        # classes it refers to exist (a registry decorator, a REPL); such a build may fail -- what is built later may not
        degraded = []

        def probe(cls):
            import typing
            try:
                typing.get_type_hints(cls)
                complete = True
            except Exception:
                complete = False
            for build in (typelib.unmarshaller, typelib.marshaller):
                try:
                    with_deadline(3, build, cls)
                    # a build that succeeds although names of the class cannot be resolved yet treats them as pass-through
                    # by documented design, and that routine is the memoised one from then on: not asserted below
                    if not complete:
                        degraded.append(cls.__name__)
                except Deadline:
                    raise
                except Exception:
                    pass
        env.probe = probe
    env.build(None, "m1")
    if early and degraded:
        EARLY["degraded_not_asserted"] += 1
        env.dispose(); return
    EARLY["asserted"] += 1 if early else 0
    ann = env.annotation(field_type(root))
    info = {"topo": topo, "root": root, "variant": variant, "early_build": early, "falsy": falsy, "stdnames": stdnames}

    def lev(d, what, out, converted=True):
        events.append({"ev": "level", "T": {"k": "any"}, "out": out, "converted": converted, "check": "flat"})
        meta.append(dict(info, depth=d, what=what))
    try:
        U = with_deadline(3, typelib.unmarshaller, ann)
        M = with_deadline(3, typelib.marshaller, ann)
        Cd = with_deadline(3, typelib.codec, ann)
    except Deadline:
        lev(-1, "build", {"k": "raised", "e": "NonTermination"})
        env.dispose(); return
    except RecursionError:
        lev(-1, "build", {"k": "raised", "e": "RecursionError"})
        env.dispose(); return
    except Exception as e:
        lev(-1, "build", {"k": "raised", "e": type(e).__name__})
        env.dispose(); return
    lev(-1, "build", {"k": "ok", "r": {"k": "none", "cls": "NoneType"}})
    for d in depths:
        raw = wrap_root(root, unroll(topo, root[1], d, True, fin))
        want = wrap_root(root, unroll(topo, root[1], d, False, fin))
        if root[0] in ("tupv",):
            pass
        try:
            res = with_deadline(10, U, raw)
        except Deadline:
            lev(d, "unmarshal", {"k": "raised", "e": "NonTermination"}); continue
        except RecursionError:
            lev(d, "unmarshal", {"k": "raised", "e": "RecursionError"}); continue
        except Exception as e:
            lev(d, "unmarshal", {"k": "raised", "e": type(e).__name__}); continue
        try:
            ls = levels(topo, root, res, env)
        except Exception:      # a result so malformed that it cannot be walked is a failed level, not a harness crash
            ls = [{"lvl": 0, "cls": root[1], "right": False, "conv": False}]
        deepest = max((x["lvl"] for x in ls), default=-1)
        want_deepest = max((x["lvl"] for x in levels(topo, root, want, env)), default=-1)
        # the same value as a tree of instances with raw members (depths 1..3): every level is converted as well
        if 1 <= d <= 3:
            try:
                inst = wrap_root(root, instantiate(topo, root[1], unroll(topo, root[1], d, True, fin), env))
                res_i = with_deadline(10, U, inst)
                ls_i = levels(topo, root, res_i, env)
                flags_i = [bool(x["right"] and x["conv"]) for x in ls_i]
                events.append({"ev": "levels", "flags": flags_i or [True], "reach": len(ls_i) == len(ls)})
                fr = next((x["lvl"] for x in ls_i if not (x["right"] and x["conv"])), None)
                meta.append(dict(info, depth=d, what="instance_level" if fr is not None else "instance_levels", first_raw_level=fr))
            except Deadline:
                lev(d, "unmarshal_instances", {"k": "raised", "e": "NonTermination"})
            except Exception as e:
                lev(d, "unmarshal_instances", {"k": "raised", "e": type(e).__name__})
        # one flat event per value: a flag per level (right class and every scalar of the level converted),
        # and whether the walk reached the depth that was generated
        flags = [bool(x["right"] and x["conv"]) for x in ls]
        reach = deepest == want_deepest and len(ls) == len(levels(topo, root, want, env))
        events.append({"ev": "levels", "flags": flags or [True], "reach": reach})
        firstraw = next((x["lvl"] for x in ls if not (x["right"] and x["conv"])), None)
        meta.append(dict(info, depth=d, what="level" if firstraw is not None else ("reach" if not reach else "levels"), first_raw_level=firstraw))
        # round trip at the root: marshal(unmarshal(raw)) is the converted wire value; codec agrees
        try:
            w = with_deadline(10, M, res)
            same = (json.dumps(w, sort_keys=True, default=list) == json.dumps(want, sort_keys=True, default=list))
            lev(d, "roundtrip", {"k": "ok", "r": {"k": "none", "cls": "NoneType"}}, converted=same)
            b = with_deadline(10, Cd.encode, res)
            back = with_deadline(10, Cd.decode, b)
            lev(d, "codec", {"k": "ok", "r": {"k": "none", "cls": "NoneType"}}, converted=(back == res))
        except Deadline:
            lev(d, "marshal", {"k": "raised", "e": "NonTermination"})
        except RecursionError:
            lev(d, "marshal", {"k": "raised", "e": "RecursionError"})
        except Exception as e:
            lev(d, "marshal", {"k": "raised", "e": type(e).__name__})
        # a finite value in which one instance sits in two places (a shared child, a flyweight leaf) is not circular: it
        # marshals like the same value built from distinct objects
        if d in (2, 3) and _share(res):
            try:
                w1 = with_deadline(10, M, res)
                w2 = with_deadline(10, M, with_deadline(10, U, w1))
                lev(d, "shared_instances", {"k": "ok", "r": {"k": "none", "cls": "NoneType"}},
                    converted=(json.dumps(w1, sort_keys=True, default=list) == json.dumps(w2, sort_keys=True, default=list)))
            except Deadline:
                lev(d, "shared_instances", {"k": "raised", "e": "NonTermination"})
            except RecursionError:
                lev(d, "shared_instances", {"k": "raised", "e": "RecursionError"})
            except Exception as e:
                lev(d, "shared_instances", {"k": "raised", "e": type(e).__name__})
    env.dispose()


def _run(ctx: Ctx, box):
    quick = ctx.quick
    rng = random.Random(ctx.seed)
    warnings.simplefilter("ignore")
    base = open(tlc.SPEC_DIR + "/MC_Graph.cfg").read()
    small = base.replace('{"opt", "list", "dict", "tupv", "direct"}', '{"opt", "list", "direct"}')
    res = tlc.must(tlc.run("Graph", cfg_text=small if quick else base, workers=16, timeout=7200), "Graph model (termination, cut rule)")
    ecfg = base.replace("Emit = FALSE", "Emit = TRUE").replace("PROPERTY Terminates\n", "")
    if quick:
        ecfg = ecfg.replace("MaxFields = 2", "MaxFields = 2").replace('{"opt", "list", "dict", "tupv", "direct"}', '{"opt", "list", "dict", "tupv"}')
    em = tlc.must(tlc.run("Graph", cfg_text=ecfg, workers=1, timeout=7200), "Graph emit")
    cases = [p for p in em.printed if isinstance(p, dict) and "topo" in p and cyclic_from(p["topo"], p["root"])]
    e3 = tlc.must(tlc.run("Graph", cfg_text=ecfg.replace("NClasses = 2", "NClasses = 3").replace("MaxFields = 2", "MaxFields = 1")
                          .replace('{"opt", "list", "dict", "tupv"}', '{"opt", "list", "direct"}')
                          .replace('{"opt", "list", "dict", "tupv", "direct"}', '{"opt", "list", "dict", "direct"}'),
                          workers=1, timeout=7200), "Graph emit 3 classes")
    cases += [p for p in e3.printed if isinstance(p, dict) and "topo" in p and cyclic_from(p["topo"], p["root"])]
    ncyc = len(cases)
    cases = rng.sample(cases, min(len(cases), 450 if quick else 20000))
    depths = [0, 1, 2, 3, 12]
    ndeep = 15 if quick else 1500         # every k-th case is also unrolled to depth 50, 100 and 150
    events, meta = [], []
    clear_typelib_caches()
    for k, c in enumerate(cases):
        deep = ndeep and k % max(1, len(cases) // ndeep) == 0
        n0 = len(meta)
        observe_case(c["topo"], c["root"], k % 5, depths + ([50, 100, 150] if deep else []), events, meta, early=(k % 4 == 3),
                     falsy=(k % 5 in (0, 3) and k % 3 == 1), stdnames=(k % 7 == 2))
        if k % 4 == 3:
            clear_typelib_caches()
            if c["root"][0] != "cls" and k % 8 == 7:
                # the same early-build history with the class itself as the root (the quick tier emits container roots only)
                # (in the variant that makes that class a NamedTuple: its string annotations are kept as references)
                observe_case(c["topo"], ["cls", c["root"][1]], {1: 4, 2: 3, 3: 2}[c["root"][1]], [0, 1, 2], events, meta, early=True)
                clear_typelib_caches()
        for m in meta[n0:]:
            m["case_id"] = k
    depths = depths + [50, 100, 150]
    slim = events
    tres, rejects = tlc.validate_trace("Member_Trace", "Member_Trace.cfg", slim, timeout=7200)
    viol = []
    bad_depths: dict = {}
    for r in rejects:
        m = meta[r["rej"] - 1]
        bad_depths.setdefault(m.get("case_id"), set()).add(m["depth"])
    for r in rejects:
        m = meta[r["rej"] - 1]
        kinds = sorted({ft[0] for fs in m["topo"] for ft in fs})
        viol.append(Violation(clause=r["clause"], case=m,
                              fields={"what": m["what"].rstrip("0123456789"), "root_kind": m["root"][0], "kinds": kinds,
                                      "flavours": m["variant"], "deep": m["depth"] >= 50, "depth": m["depth"],
                                      # the same case converted correctly at every smaller depth (up to 100 levels)
                                      "only_at_this_depth": bad_depths.get(m.get("case_id")) == {m["depth"]}},
                              msg=json.dumps(m)[:300]))
    nontrivial = {json.dumps([m["topo"], m["root"], m["depth"]]) for m in meta if m["depth"] >= 1}
    box["out"] = Outcome(
        level="model_checking",
        coverage={"states": res.distinct, "transitions": res.generated, "exhaustive": True,
                  "traces_validated_against_impl": len(events), "evaluations": len(events),
                  "distinct_nontrivial": len(nontrivial), "cyclic_cases_emitted": ncyc, "cases_run": len(cases), "depths": depths,
                  "early_build_histories_asserted": EARLY["asserted"],
                  "early_build_histories_degraded_by_design_not_asserted": EARLY["degraded_not_asserted"],
                  "rule": "cycle topologies emitted by TLC from spec/Graph.tla (2 classes x <=2 fields over Optional/list/dict/tuple edges, "
                          "3 classes x 1 field incl. direct edges; every class and every container of a class as root), materialised in 4 "
                          "class flavours over 1-2 modules; for each depth the raw wire value is unmarshalled and walked level by level "
                          "(one flat event per value with a flag per level: right class, scalars converted; at depths 1-3 also given as a tree of "
                          "instances whose members still hold wire values), marshalled back and passed through the codec; "
                          "non-trivial = depth >= 1, distinct by (topology, root, depth)",
                  "samples": [dict(meta[len(meta) // 2], event=events[len(events) // 2])]},
        violations=viol,
        assumptions=["depth counts class levels; the levels are logged as a flat sequence of flags so that TLC never sees 150-deep terms",
                     "per-level class/scalar checks and the root round-trip comparison are computed by the harness; TLC asserts them",
                     "the Python frame limit is raised for the depth >= 50 runs"])


def run(ctx: Ctx) -> Outcome:
    box: dict = {}
    sys.setrecursionlimit(30000)
    threading.stack_size(512 * 1024 * 1024)
    err: list = []

    def target():
        try:
            _run(ctx, box)
        except BaseException as e:   # re-raised in the main thread
            err.append(e)
    # signal-based deadlines need the main thread; deep recursion needs a big stack: run in main thread with high limit
    _run(ctx, box)
    return box["out"]


def replay(ctx: Ctx, rep: dict) -> Outcome:
    m = rep["case"]
    sys.setrecursionlimit(30000)
    events, meta = [], []
    observe_case(m["topo"], m["root"], m["variant"], [m["depth"]] if m["depth"] >= 0 else [0], events, meta, early=m.get("early_build", False), falsy=m.get("falsy", False), stdnames=m.get("stdnames", False))
    for e, mm in zip(events, meta):
        print("  ", mm["what"], mm["depth"], e.get("out", e.get("flags")), e.get("converted", e.get("reach")))
    _, rejects = tlc.validate_trace("Member_Trace", "Member_Trace.cfg", events)
    viol = [Violation(clause=r["clause"], case=meta[r["rej"] - 1], fields={}, msg="") for r in rejects]
    return Outcome(level="model_checking", coverage={"evaluations": len(events)}, violations=viol)
