"""C19 -- slotted dataclasses behave like the original dataclass (spec/Slotted.tla)."""
from __future__ import annotations

import copy
import dataclasses
import pickle
import random
import sys
import types
import warnings
import weakref

from .. import tlc
from ..core import Ctx, Outcome, Violation

FLAGSETS = [  # (frozen, order, unsafe_hash, user_state); user_state: which state hooks the body declares (spec/SlottedState.tla)
    (False, False, False, "none"), (True, False, False, "none"), (False, True, False, "none"),
    (True, True, False, "none"), (False, False, True, "none"), (True, False, False, "both"),
    (False, False, False, "both"), (True, False, False, "set"), (False, False, False, "set"),
    (True, False, False, "get"), (False, True, False, "get"),
    # no hooks, but the last own field is declared field(init=False) without a default: instances are copied / pickled while
    # that field is still unassigned
    (True, False, False, "late"), (False, False, False, "late"),
]


def hooks_of(ustate):
    return {True: "both", False: "none", "late": "none"}.get(ustate, ustate)
_N = [0]


def _class_src(i, desc, flags, scope, redecl=None):
    frozen, order, uhash, ustate = flags
    base = ""
    if desc["base"]:
        base = f"(_S[{desc['base']}])" if desc["baseform"] == "slotted" else f"(_P[{desc['base']}])"
    body = "".join(f"    c{i}f{k}: int = {10 * i + k}\n" for k in range(1, desc["nf"] + 1))
    if redecl:
        # the child declares a field of its base again, with another plain default (no new field: the slot
        # formula of spec/Slotted.tla is unchanged, the name is already among FieldsOf(base))
        body += f"    {redecl}: int = 999\n"
    if i % 2 == 0 and desc["nf"]:
        body = body.replace(f" = {10 * i + 1}\n", f" = dataclasses.field(default_factory=lambda: {10 * i + 1})\n", 1)
    if ustate == "late" and desc["nf"]:
        last = f"    c{i}f{desc['nf']}: int = "
        body = "".join((last + "dataclasses.field(init=False)\n") if ln.startswith(last) else ln for ln in body.splitlines(True))
    ustate = hooks_of(ustate)
    if ustate in ("both", "get"):
        body += "    def __getstate__(self):\n        return {f.name: getattr(self, f.name) for f in dataclasses.fields(self)}\n"
    if ustate == "both":
        body += "    def __setstate__(self, st):\n        for k, v in st.items():\n            object.__setattr__(self, k, v)\n"
    if ustate == "set":
        # a lone __setstate__ that copes with both state layouts (a dict; a (dict-or-None, slots) pair) and leaves a mark
        body += ("    def __setstate__(self, st):\n"
                 "        if isinstance(st, tuple):\n            st = {**(st[0] or {}), **(st[1] or {})}\n"
                 "        for k, v in st.items():\n            object.__setattr__(self, k, v + 1000 if isinstance(v, int) else v)\n")
    if not body:
        body = "    pass\n"
    deco = f"@dataclasses.dataclass(frozen={frozen}, order={order}, unsafe_hash={uhash})"
    cls = f"@_dec({i}, {desc['d']}, {desc['w']})\n{deco}\nclass {desc['name']}{base}:\n    'doc {i}'\n{body}"
    if scope == "local":
        ind = "".join("    " + ln + "\n" for ln in cls.splitlines())
        return f"def _make{i}():\n{ind}    return {desc['name']}\n{desc['name']} = _make{i}()\n"
    return cls


def _new_module(kind):
    _N[0] += 1
    name = f"verif_slot_{kind}_{_N[0]}"
    mod = types.ModuleType(name)
    sys.modules[name] = mod
    mod.__dict__.update({"dataclasses": dataclasses, "_S": {}, "_P": {}})
    return mod


def battery(C, modname):
    """Fixed operation battery; outcomes as strings so that twins can be compared by TLC."""
    out = {}

    def rec(op, fn):
        try:
            out[op] = str(fn()).replace(modname, "MOD")
        except Exception as e:
            out[op] = "raised:" + type(e).__name__
    fs = [f.name for f in dataclasses.fields(C) if f.init]      # (a field(init=False) member is no constructor parameter)
    n = len(fs)
    rec("fields", lambda: [(f.name, repr(f.default)[:20], f.default_factory is not dataclasses.MISSING) for f in dataclasses.fields(C)])
    rec("qualname", lambda: (C.__qualname__, C.__name__, C.__doc__, C.__module__))
    rec("new_default", lambda: repr(C()))
    rec("new_pos", lambda: repr(C(*range(100, 100 + n))))
    rec("new_kw", lambda: repr(C(**{f: 7 for f in fs})))
    rec("new_toomany", lambda: repr(C(*range(n + 1))))
    try:
        x, y, z = C(), C(), (C(*range(100, 100 + n)) if n else C())
    except Exception as e:
        out["construct"] = "raised:" + type(e).__name__
        return out
    rec("eq", lambda: (x == y, x != y, x == z, x == 5))
    rec("lt", lambda: (x < z, z <= x))
    rec("hash", lambda: (hash(x) == hash(y), hash(x)))
    rec("copy", lambda: (copy.copy(z) == z, type(copy.copy(z)) is C, copy.copy(z) is not z))
    rec("deepcopy", lambda: (copy.deepcopy(z) == z, type(copy.deepcopy(z)) is C))
    # the same without comparing (an instance with a still unassigned field cannot be compared, but it can be copied)
    rec("copy_only", lambda: (type(copy.copy(z)) is C, type(copy.deepcopy(z)) is C))
    rec("pickle_only", lambda: [type(pickle.loads(pickle.dumps(z, p))) is C for p in range(2, pickle.HIGHEST_PROTOCOL + 1)])
    for proto in range(2, pickle.HIGHEST_PROTOCOL + 1):
        rec(f"pickle{proto}", lambda p=proto: (pickle.loads(pickle.dumps(z, p)) == z, repr(pickle.loads(pickle.dumps(z, p)))))
    # non-field instance state (a derived attribute, a warmed cached_property) lives in the instance __dict__ and travels with
    # copies and pickles; compared only where the slotted class keeps a __dict__ (see run_history)
    def extra(clone):
        o = C(*range(100, 100 + n)) if n else C()
        object.__setattr__(o, "extra_", [5])
        c = clone(o)
        return (getattr(c, "extra_", "-"), type(c) is C)
    rec("copy_extra", lambda: extra(copy.copy))
    rec("deepcopy_extra", lambda: extra(copy.deepcopy))
    rec("pickle_extra", lambda: [extra(lambda o, p=p: pickle.loads(pickle.dumps(o, p))) for p in (2, pickle.HIGHEST_PROTOCOL)])
    if fs:
        rec("setattr_field", lambda: (setattr(y, fs[0], 55), repr(y))[1])
        rec("delattr_field", lambda: (delattr(C(), fs[0]), "deleted")[1])
    rec("asdict", lambda: (dataclasses.asdict(z), dataclasses.astuple(z)))
    if fs:
        rec("replace", lambda: repr(dataclasses.replace(z, **{fs[-1]: 9})))
    rec("isinst", lambda: (dataclasses.is_dataclass(C), isinstance(z, C), [b.__name__ for b in C.__mro__]))
    rec("frozen", lambda: C.__dataclass_params__.frozen)
    return out


def run_history(hist, hid, flags, scope, redeclare=False, keep=None, slotted_first=False):
    """Materialise one decoration history twice: with classes.slotted, and as plain dataclasses."""
    from typelib.py import classes
    ms, mp = _new_module("s"), _new_module("p")
    results = {}

    decorators: dict = {}

    keep_plain = {d_["base"] for d_ in hist if d_["base"] and d_["baseform"] != "slotted"}

    def dec_s(i, d, w):
        def deco(cls):
            # (the undecorated class normally dies right after decoration -- `@slotted @dataclass class C` keeps only the
            # result; it is kept here only when a later class of the history derives from it)
            if i in keep_plain:
                ms._P[i] = cls
            # (a decorator object kept by the caller and applied to several classes: one per flag pair and history)
            if (d, w) not in decorators:
                decorators[(d, w)] = classes.slotted(dict=d, weakref=w)
            new = decorators[(d, w)](cls)
            ms._S[i] = new
            return new
        return deco

    def dec_p(i, d, w):
        def deco(cls):
            mp._P[i] = cls
            mp._S[i] = cls
            return cls
        return deco
    ms._dec, mp._dec = dec_s, dec_p
    events = []
    for i, desc in enumerate(hist, 1):
        rd = None
        if redeclare and desc["base"] and hist[desc["base"] - 1]["nf"]:
            rd = f"c{desc['base']}f1"
        src = _class_src(i, desc, flags, scope, rd)
        ev = {"hid": hid, "step": i, "desc": {k: desc[k] for k in ("name", "nf", "base", "baseform", "d", "w")},
              "res": "ok", "slots": [], "hasdict": False, "hasweak": False, "stack_after": 0, "mismatch": [],
              "flags": list(flags), "scope": scope, "src": src, "redeclares": rd or ""}
        with warnings.catch_warnings():
            warnings.simplefilter("ignore")
            def plain_side():
                try:
                    exec(compile(src, "<verif-slotted>", "exec", dont_inherit=True), mp.__dict__)
                except Exception as e:   # the plain twin must always be definable: machinery problem otherwise
                    raise tlc.MachineryError(f"plain twin not definable: {e!r}\n{src}")
            if not slotted_first:
                plain_side()
            try:
                exec(compile(src, "<verif-slotted>", "exec", dont_inherit=True), ms.__dict__)
            except Exception as e:
                ev["res"] = type(e).__name__ + ":" + ("guard" if "custom metaclass" in str(e) else "layout" if "slot" in str(e) else str(e)[:40])
            if slotted_first:
                plain_side()
            if ev["res"] != "ok" and i not in ms._P:
                ms._P[i] = mp._P[i]
        ev["stack_after"] = len(classes._stack)
        if ev["res"] == "ok":
            Cs, Cp = ms._S[i], mp._S[i]
            ev["slots"] = sorted(Cs.__dict__.get("__slots__", ()))
            # class-level layout facts (an instance may not even be constructible when the class is broken;
            # that shows in the battery): instances have a __dict__ / are weakly referenceable
            ev["hasdict"] = Cs.__dictoffset__ != 0
            ev["hasweak"] = Cs.__weakrefoffset__ != 0
            bs, bp = battery(Cs, ms.__name__), battery(Cp, mp.__name__)
            hooks = hooks_of(flags[3])
            # a lone __getstate__ that returns a dict cannot restore an object without __dict__ (as with the standard library's
            # own slots=True): copying is not compared for it, the hook bookkeeping below still is
            skip = ("copy", "deepcopy", "pickle") if hooks == "get" else ()        # (prefixes: copy_only / pickle_only too)
            ev["mismatch"] = sorted(f"{op}: slotted={bs.get(op)} plain={bp.get(op)}"[:200] for op in set(bs) | set(bp)
                                    if bs.get(op) != bp.get(op) and not op.startswith(skip or ("\0",))
                                    and not (op.endswith("_extra") and not ev["hasdict"]))
            ss = Cs.__dict__.get("__setstate__")
            ev["state"] = {"frozen": bool(flags[0]), "hooks": hooks,
                           "effective": "default" if ss is None else
                           "user" if getattr(getattr(ss, "__code__", None), "co_filename", "") == "<verif-slotted>" else "fix"}
        events.append(ev)
    for m in (ms, mp):
        sys.modules.pop(m.__name__, None)
    if keep is not None:
        keep.append(ms)          # the slotted classes live on (the caller keeps what the decorator returned)
    return events


def _slim(e):
    return {k: e[k] for k in ("step", "desc", "res", "slots", "hasdict", "hasweak", "stack_after", "mismatch")}


def _violations(rejects, events):
    out = []
    for r in rejects:
        e = events[r["rej"] - 1]
        hist = [x["desc"] for x in events if x["hid"] == e["hid"] and x["step"] <= e["step"]]
        out.append(Violation(
            clause="Slotted." + r["clause"],
            case={"hist": hist, "flags": e["flags"], "scope": e["scope"], "redeclare": bool(e.get("redeclares"))},
            fields={"res": e["res"], "baseform": e["desc"]["baseform"] if e["desc"]["base"] else "none",
                    "d": e["desc"]["d"], "w": e["desc"]["w"], "frozen": e["flags"][0], "user_state": e["flags"][3],
                    "ops": sorted({m.split(":")[0] for m in e["mismatch"]})},
            msg=f"step {e['step']} {e['desc']} flags={e['flags']} scope={e['scope']}: res={e['res']} slots={e['slots']} "
                f"stack_after={e['stack_after']} mismatch={e['mismatch'][:3]}"))
    return out


def run(ctx: Ctx) -> Outcome:
    quick = ctx.quick
    rng = random.Random(ctx.seed)
    from typelib.py import classes
    base = open(tlc.SPEC_DIR + "/MC_Slotted.cfg").read()
    res = tlc.must(tlc.run("Slotted", cfg_text=base, workers=8), "Slotted model")
    states, trans = res.distinct, res.generated
    if not quick:
        r4 = tlc.must(tlc.run("Slotted", cfg_text=base.replace("MaxHist = 3", "MaxHist = 4").replace('{"A", "B"}', '{"A"}'),
                              workers=16, timeout=7200), "Slotted model, histories of 4")
        states += r4.distinct; trans += r4.generated
    old = tlc.run("Slotted", "MC_Slotted_old.cfg", workers=4)
    if old.ok or "NeverRaises" not in old.stdout:
        raise tlc.MachineryError("Slotted model not sensitive: the pinned configuration must violate NeverRaises")
    ecfg = base.replace("Emit = FALSE", "Emit = TRUE").replace("INVARIANT SlotFormula", "INVARIANT SlotFormula\nINVARIANT EmitHist")
    e1 = tlc.must(tlc.run("Slotted", cfg_text=ecfg.replace('{"A", "B"}', '{"A"}'), workers=1, timeout=3600), "Slotted emit")
    hists = [[r["desc"] for r in p["hist"]] for p in e1.printed if isinstance(p, dict) and "hist" in p]
    e2 = tlc.must(tlc.run("Slotted", cfg_text=ecfg.replace("MaxHist = 3", "MaxHist = 2").replace("MaxFields = 1", "MaxFields = 2"),
                          workers=1, timeout=3600), "Slotted emit 2")
    hists += [[r["desc"] for r in p["hist"]] for p in e2.printed if isinstance(p, dict) and "hist" in p]
    if quick:
        hists = rng.sample(hists, min(len(hists), 2500))
    classes._stack.clear()
    events = []
    for hid, h in enumerate(hists):
        flags = FLAGSETS[hid % len(FLAGSETS)]
        scope = "local" if hid % 3 == 2 else "module"
        events += run_history(h, hid, flags, scope, redeclare=(hid % 4 == 1))
    # churn: classes decorated one after another, every result kept, every undecorated class collected before the next one is
    # made (a factory, make_dataclass in a loop): a new class may be given the address of a dead one
    import gc
    keepers: list = []
    for k in range(90):
        h = [{"name": "A", "nf": (k * 2 + k // 3) % 3, "base": 0, "baseform": "plain", "d": k % 2 == 1, "w": False}]
        gc.collect()
        events += run_history(h, 1_000_000 + k, FLAGSETS[k % 2], "module", keep=keepers, slotted_first=True)
    del keepers
    tres, rejects = tlc.validate_trace("Slotted_Trace", "Slotted_Trace.cfg", [_slim(e) for e in events], timeout=3600)
    viol = _violations(rejects, events)
    # which __setstate__ each slotted class ends up with: spec/SlottedState.tla
    sm = tlc.must(tlc.run("SlottedState", "MC_SlottedState.cfg", workers=2), "SlottedState model")
    lone = tlc.run("SlottedState", "MC_SlottedState_lone.cfg", workers=2)
    if lone.ok or "UserHookKept" not in lone.stdout:
        raise tlc.MachineryError("SlottedState model not sensitive: overriding a lone user hook must violate UserHookKept")
    states += sm.distinct; trans += sm.generated
    sev = [e for e in events if "state" in e]
    _, srej = tlc.validate_trace("SlottedState_Trace", "SlottedState_Trace.cfg", [e["state"] for e in sev], timeout=3600)
    for r in srej:
        e = sev[r["rej"] - 1]
        hist = [x["desc"] for x in events if x["hid"] == e["hid"] and x["step"] <= e["step"]]
        viol.append(Violation(clause=r["clause"], case={"hist": hist, "flags": e["flags"], "scope": e["scope"], "redeclare": bool(e.get("redeclares"))},
                              fields={"frozen": e["state"]["frozen"], "hooks": e["state"]["hooks"], "effective": e["state"]["effective"]},
                              msg=f"step {e['step']} {e['desc']} flags={e['flags']}: __setstate__ in use is {e['state']['effective']}"))
    drift = [{"event": _slim(events[p["drift"] - 1]), "model": p["model"]} for p in tres.printed
             if isinstance(p, dict) and "drift" in p][:20]
    nontrivial = {(tuple(sorted(e["desc"].items())), tuple(e["flags"]), e["scope"]) for e in events if e["desc"]["base"]}
    cov = {"states": states, "transitions": trans, "exhaustive": True,
           "traces_validated_against_impl": len(events), "evaluations": len(events),
           "distinct_nontrivial": len(nontrivial), "histories": len(hists), "state_hook_events": len(sev),
           "rule": "model: every decoration history of length<=3 over 2 names (thorough: 4 over one name); real: TLC-emitted complete "
                   "histories (one repeated name, length 3; two names, length 2, up to 2 fields) materialised with decorator syntax at "
                   "module and function-local scope under 13 dataclass flag sets (frozen/order/unsafe_hash x the state hooks the body declares: none, both, a lone __setstate__, a lone __getstate__) (every fourth history with the child re-declaring a field of its base), each slotted class compared with its plain twin under "
                   "the operation battery; non-trivial = decoration of a class with a base",
           "samples": [_slim(events[len(events) // 2])]}
    return Outcome(level="model_checking", coverage=cov, violations=viol, impl_drift=drift,
                   assumptions=["the battery outcomes are computed in Python and only asserted equal by the trace spec",
                                "pickling is compared twin-to-twin (function-local classes are unpicklable in both)"])


def replay(ctx: Ctx, rep: dict) -> Outcome:
    from typelib.py import classes
    classes._stack.clear()
    c = rep["case"]
    ev = run_history(c["hist"], 0, tuple(c["flags"]), c["scope"], redeclare=c.get("redeclare", False))
    for e in ev:
        print(e["src"]); print("  ->", _slim(e))
    _, rejects = tlc.validate_trace("Slotted_Trace", "Slotted_Trace.cfg", [_slim(e) for e in ev])
    viol = _violations(rejects, ev)
    sev = [e for e in ev if "state" in e]
    if sev:
        _, srej = tlc.validate_trace("SlottedState_Trace", "SlottedState_Trace.cfg", [e["state"] for e in sev])
        viol += [Violation(clause=r["clause"], case=c, fields=sev[r["rej"] - 1]["state"], msg=str(sev[r["rej"] - 1]["state"])) for r in srej]
    return Outcome(level="model_checking", coverage={"evaluations": len(ev)}, violations=viol)
