"""C12 -- results depend only on (type, input), never on call history (spec/Caches.tla)."""
from __future__ import annotations

import json
import random

from .. import tlc
from ..core import Ctx, Outcome, Violation
from ..zygote import FAMILY_NAMES, ExecZygote, Zygote


def abstract_histories(maxops):
    cfg = open(tlc.SPEC_DIR + "/MC_Caches.cfg").read().replace("MaxOps = 4", f"MaxOps = {maxops}")
    res = tlc.must(tlc.run("Caches", cfg_text=cfg, workers=4), "Caches model")
    for bad in ("MC_Caches_coarse.cfg", "MC_Caches_shared.cfg"):
        r = tlc.run("Caches", bad, workers=2)
        if r.ok or "HistoryFree" not in r.stdout:
            raise tlc.MachineryError(f"Caches model not sensitive: {bad} must violate HistoryFree")
    r = tlc.run("Caches", "MC_Caches_identity.cfg", workers=2)
    if r.ok or "ResultsIndependentOfInputs" not in r.stdout:
        raise tlc.MachineryError("Caches model not sensitive: an identity fast path must violate ResultsIndependentOfInputs")
    em = tlc.must(tlc.run("Caches", cfg_text=cfg.replace("Emit = FALSE", "Emit = TRUE")
                          .replace("INVARIANT HistoryFree", "INVARIANT HistoryFree\nINVARIANT EmitHist"), workers=1), "Caches emit")
    hists = [p["hist"] for p in em.printed if isinstance(p, dict) and "hist" in p]
    return hists, res


def run(ctx: Ctx) -> Outcome:
    rng = random.Random(ctx.seed)
    z = Zygote()           # forked before this process touches typelib
    pool = [z]
    try:
        hists, model = abstract_histories(4 if ctx.quick else 5)
        # only histories with at least two calls can show history dependence
        hists = [h for h in hists if sum(1 for o in h if o["op"] == "call") >= 2]
        cold = {}
        for fam in FAMILY_NAMES:
            for eq in (1, 2):
                for d in (1, 2):
                    r = z.ask({"kind": "cold", "fam": fam, "eq": eq, "d": d})
                    if "error" in r:
                        raise tlc.MachineryError(f"cold run failed: {fam} {eq} {d}: {r['error']}")
                    cold[(fam, eq, d)] = r
        events, meta = [], []
        # the same cold calls in interpreters started with other string-hash seeds: same outcomes
        for hs in ((1, 2) if ctx.quick else (1, 2, 3, 5)):
            ez = ExecZygote(hs)
            try:
                for fam in FAMILY_NAMES:
                    for eq in (1, 2):
                        for d in (1, 2):
                            r = ez.ask({"kind": "cold", "fam": fam, "eq": eq, "d": d})
                            if "error" in r:
                                raise tlc.MachineryError(f"cold run (hash seed {hs}) failed: {fam} {eq} {d}: {r['error']}")
                            events.append({"warm": r["cold"], "cold": cold[(fam, eq, d)]["cold"], "input_intact": True, "earlier_intact": True,
                                           "results_disjoint": True, "result_independent_of_input": True})
                            meta.append({"family": fam, "history": [{"op": f"cold call under PYTHONHASHSEED={hs}", "eq": eq, "d": d, "target": 0}],
                                         "at": 0, "eq": eq, "d": d})
            finally:
                ez.close()
        per_family = 170 if ctx.quick else 100000
        # one more zygote per worker thread (each forked from this still-clean process); families are spread over them
        import threading
        nworkers = 4 if ctx.quick else 12
        pool += [Zygote() for _ in range(nworkers - 1)]
        results: dict = {}
        errors: list = []

        def work(zz, fams):
            try:
                for fam in fams:
                    sel = hists if len(hists) <= per_family else random.Random(f"{ctx.seed}:{fam}").sample(hists, per_family)
                    out = []
                    for h in sel:
                        ops = [{"op": o["op"], "eq": o["eq"], "d": o["d"], "target": o["target"]} for o in h]
                        r = zz.ask({"kind": "history", "fam": fam, "ops": ops})
                        if "error" in r:
                            raise tlc.MachineryError(f"warm history failed: {fam} {ops}: {r['error']}")
                        out.append((ops, r["recs"]))
                    results[fam] = out
            except BaseException as e:
                errors.append(e)
        threads = [threading.Thread(target=work, args=(pool[i], FAMILY_NAMES[i::nworkers])) for i in range(nworkers)]
        for t in threads:
            t.start()
        for t in threads:
            t.join()
        if errors:
            raise errors[0] if isinstance(errors[0], tlc.MachineryError) else tlc.MachineryError(repr(errors[0]))
        for fam in FAMILY_NAMES:
            for ops, recs in results[fam]:
                for i, rec in enumerate(recs):
                    if rec["op"] == "mutate" and not rec.get("result_independent_of_input", True):
                        # the caller changed the input it had passed, and the result it had got back changed with it
                        none = {"k": "ok", "r": {"k": "none", "cls": "NoneType"}}
                        events.append({"warm": none, "cold": none, "input_intact": True, "earlier_intact": True, "results_disjoint": True,
                                       "result_independent_of_input": False})
                        meta.append({"family": fam, "history": ops, "at": i, "eq": 0, "d": 0})
                        continue
                    if rec["op"] != "call":
                        continue
                    c = cold[(fam, rec["eq"], rec["d"])]
                    events.append({"warm": rec["warm"], "cold": c["cold"], "input_intact": rec["input_intact"] and c["input_intact"],
                                   "earlier_intact": rec["earlier_intact"], "results_disjoint": rec.get("results_disjoint", True), "result_independent_of_input": True})
                    meta.append({"family": fam, "history": ops, "at": i, "eq": rec["eq"], "d": rec["d"]})
    finally:
        for zz in pool[::-1]:   # youngest first: a zygote forked later holds copies of the older ones' pipe ends
            zz.close()
    tres, rejects = tlc.validate_trace("Caches_Trace", "Caches_Trace.cfg", events, timeout=7200)
    viol = []
    for r in rejects:
        e, m = events[r["rej"] - 1], meta[r["rej"] - 1]
        prior = m["history"][: m["at"]]
        viol.append(Violation(
            clause=r["clause"], case=m,
            fields={"family": m["family"], "eq": m["eq"], "d": m["d"],
                    "after_equal_other_detail": any(o["op"] == "call" and o["eq"] == m["eq"] and o["d"] != m["d"] for o in prior),
                    "after_mutation": any(o["op"] == "mutate" for o in prior),
                    "after_clear": bool(prior) and prior[-1]["op"] == "clear"},
            msg=f"{m['family']} history={[(o['op'], o['eq'], o['d'], o['target']) for o in m['history']]} at {m['at']}: warm={json.dumps(e['warm'])[:140]} cold={json.dumps(e['cold'])[:140]}"))
    nontrivial = {(m["family"], json.dumps(m["history"])) for m in meta}
    cov = {"states": model.distinct, "transitions": model.generated, "exhaustive": True,
           "traces_validated_against_impl": len(events), "evaluations": len(events), "distinct_nontrivial": len(nontrivial),
           "abstract_histories": len(hists), "families": FAMILY_NAMES,
           "rule": "TLC enumerates every abstract history of the bound over {call [eq, d], deep-mutate the result and input of an earlier call, "
                   "clear caches}; each is instantiated in 35 concrete families of colliding arguments (both member orders of a union at root "
                   "and nested, equal instants with different offsets, str/bytes/bytearray text, bare containers, 1/1.0/True, same-named "
                   "classes, bare and qualified string references from two modules, recursive types, codec configurations, dateparse "
                   "targets, routine kinds of one class in every build order, different inputs to one routine, a class with a private init field, text decoding to nested containers, == durations of different classes, temporal -> text targets, == mapping keys, annotations of one runtime origin that need different routines, values of different classes for one annotation, the same input object again after a failed call and an in-place repair) and run warm in a fresh fork; every call is compared with the same call alone in another fresh fork; "
                   "distinct by (family, history)",
           "samples": [dict(meta[len(meta) // 2], event=events[len(events) // 2])]}
    return Outcome(level="model_checking", coverage=cov, violations=viol,
                   assumptions=["a cold process = a fork of a zygote that imported typelib and built the test modules but called nothing",
                                "every warm history also runs in its own fork, so histories do not influence each other"])


def replay(ctx: Ctx, rep: dict) -> Outcome:
    m = rep["case"]
    z = Zygote()
    try:
        r = z.ask({"kind": "history", "fam": m["family"], "ops": m["history"]})
        events = []
        for rec in r.get("recs", []):
            if rec["op"] != "call":
                print("  ", rec); continue
            c = z.ask({"kind": "cold", "fam": m["family"], "eq": rec["eq"], "d": rec["d"]})
            print("   call", rec["eq"], rec["d"], "warm", json.dumps(rec["warm"])[:120], "cold", json.dumps(c["cold"])[:120])
            events.append({"warm": rec["warm"], "cold": c["cold"], "input_intact": rec["input_intact"], "earlier_intact": rec["earlier_intact"], "results_disjoint": rec.get("results_disjoint", True), "result_independent_of_input": True})
    finally:
        z.close()
    _, rejects = tlc.validate_trace("Caches_Trace", "Caches_Trace.cfg", events)
    return Outcome(level="model_checking", coverage={"evaluations": len(events)},
                   violations=[Violation(clause=x["clause"], case=m, fields={}, msg="") for x in rejects])
