"""C08 -- union members tried in declared order, None always honoured (spec/Union.tla)."""
from __future__ import annotations

import dataclasses
import datetime
import decimal
import enum
import itertools
import json
import random
import sys
import types
import typing
import uuid

from .. import tlc
from ..core import Ctx, Outcome, Violation
from ..terms import clear_typelib_caches, vkey

MOD = "verif_unionpool"
_SRC = '''
import dataclasses, enum
@dataclasses.dataclass
class DC:
    a: int
class Color(enum.Enum):
    RED = 1
    BLUE = "blue"
# a class and a class derived from it that declares the inherited member again with another type: what the base rejects the
# derived class may accept
@dataclasses.dataclass
class Acct:
    ident: int
@dataclasses.dataclass
class Legacy(Acct):
    ident: str
'''


class Fresh:
    """An input that is made anew for every call (memoryviews: a call must not be able to spoil the next one by what it
    does to the object; within one union call the members still share the one object they are given)."""

    def __init__(self, make, label):
        self.make, self.label = make, label

    def __call__(self):
        return self.make()

    def __repr__(self):
        return self.label


def pool():
    mod = types.ModuleType(MOD)
    sys.modules[MOD] = mod
    exec(compile(_SRC, "<verif-generated>", "exec", dont_inherit=True), mod.__dict__)
    NoneT = type(None)
    tys = {
        "int": int, "str": str, "float": float, "Decimal": decimal.Decimal, "date": datetime.date,
        "datetime": datetime.datetime, "UUID": uuid.UUID, "list[int]": list[int],
        "dict[str,int]": dict[str, int], "DC": mod.DC, "Color": mod.Color,
        "Literal": typing.Literal["a", 1], "None": NoneT, "Acct": mod.Acct, "Legacy": mod.Legacy,
        "bytes": bytes,
    }
    utc = datetime.timezone.utc
    inputs = [
        None, True, False, 0, 1, -1, 2**40, 1.5, 1e20, float("1e-3"),
        "1", "abc", "1.5", "null", "None", "", "a", "blue", "true", " 1 ",
        "2020-01-01", "2020-01-01T00:00:00+00:00", "[1, 2]", '{"a": 1}', '{"a": "x"}', "(1, 2)",
        "12345678-1234-5678-1234-567812345678", b"1", b"abc", bytearray(b"1"),
        [1], ["a"], [], [1, "2"], {"a": 1}, {"a": "x"}, {}, (1, 2), {1, 2},
        decimal.Decimal("1.5"), datetime.date(2020, 1, 1), datetime.datetime(2020, 1, 1, tzinfo=utc),
        uuid.UUID(int=5), mod.DC(a=1), mod.Color.RED, mod.Color.BLUE, 1.0, "1.0", "1e3", object(),
        Fresh(lambda: memoryview(b"1"), "memoryview(b'1')"), Fresh(lambda: memoryview(b"abc"), "memoryview(b'abc')"),
        Fresh(lambda: memoryview(bytearray(b"[1, 2]")), "memoryview(bytearray(b'[1, 2]'))"),
        Fresh(lambda: memoryview(b'{"a": 1}'), "memoryview(b'{\"a\": 1}')"),
        Fresh(lambda: memoryview(b'["x", 2020-01-01]')[6:16], "memoryview(b'[\"x\", 2020-01-01]')[6:16]"),
        Fresh(lambda: memoryview(b"blue"), "memoryview(b'blue')"),
        {"ident": "ab-12"}, {"ident": 5}, mod.Legacy(ident="zz"),
        # long inputs: texts of more than 256 characters that only the whole text decides, long real collections
        json.dumps(list(range(120))), json.dumps({f"k{i}": i for i in range(60)}), '{"a": ' + " " * 300 + "7}",
        json.dumps(list(range(120))).encode(), list(range(400)), {f"k{i}": i for i in range(300)}, "9" * 300, "x" * 300,
        '{"ident": ' + " " * 280 + '"ab-12"}',
        # bytes that are no UTF-8 text (a member that takes bytes as they are accepts them, text-decoding members reject)
        b"\x89PNG\r\n", bytearray(b"\xff\x00\xfe"), b"caf\xe9",
    ]
    # values offered to marshal: valid instances of some member, plus a few of none
    mvalues = [
        None, True, 1, -7, 1.5, "1", "abc", "", "a", decimal.Decimal("1.5"), datetime.date(2020, 1, 1),
        datetime.datetime(2020, 1, 1, 12, tzinfo=utc), uuid.UUID(int=5), [1, 2], [], ["x"], {"a": 1}, {},
        {"a": "x"}, mod.DC(a=1), mod.Color.RED, mod.Color.BLUE, (1, 2), object(), 2, "blue",
        mod.Acct(ident=3), mod.Legacy(ident="ab-12"), list(range(400)), b"\x89PNG", b"abc",
    ]
    return tys, inputs, mvalues


def spell(members, how):
    if how == "Union":
        return typing.Union[tuple(members)]
    if how == "pipe":
        t = members[0]
        for m in members[1:]:
            t = t | m
        return t
    if how == "Optional":
        rest = [m for m in members if m is not type(None)]
        return typing.Optional[typing.Union[tuple(rest)]]
    raise ValueError(how)


def _call(routine, x):
    try:
        r = routine(x)
    except RecursionError:
        return False, "RecursionError"
    except Exception as e:
        return False, type(e).__name__
    return True, vkey(r)


def enumerate_tuples(names, quick, rng):
    base = [n for n in names if n != "None"]
    tuples = [p for p in itertools.permutations(base, 2)]
    tuples += [(a, "None") for a in base] + [("None", a) for a in base]
    t3 = list(itertools.permutations(base, 3))
    t3n = [p[:k] + ("None",) + p[k:] for p in itertools.permutations(base, 2) for k in range(3)]
    t4 = [p[:k] + ("None",) + p[k:] for p in itertools.permutations(base, 3) for k in range(4)]
    t4 += list(itertools.permutations(base, 4))
    if quick:
        tuples += rng.sample(t3, 150) + rng.sample(t3n, 150) + rng.sample(t4, 40)
    else:
        tuples += t3 + t3n + rng.sample(t4, 4000)
    return tuples


def run_tuple(tys, names, how, inputs, mvalues, rng, tid):
    """All observations for one union annotation.  Caches are cold per annotation (Union[A,B] ==
    Union[B,A] share every ==-keyed memo; that cross-talk is C12's subject, not C08's)."""
    import typelib
    from typelib import marshals, unmarshals
    members = [tys[n] for n in names]
    try:
        ann = spell(members, how)
    except TypeError:
        return []
    if typing.get_args(ann) != tuple(members):
        return []          # typing collapsed or reordered the members: not the case we meant
    clear_typelib_caches()
    events = []
    nonekey = vkey(None)
    um = [unmarshals.unmarshaller(m) for m in members]
    mm = [marshals.marshaller(m) for m in members]
    U = unmarshals.unmarshaller(ann)
    M = marshals.marshaller(ann)
    order1 = list(range(len(inputs)))
    order2 = order1[::-1]
    rng.shuffle(order1)
    for pas, order in ((1, order1), (2, order2)):
        for j in order:
            x = inputs[j]
            mk = x if isinstance(x, Fresh) else (lambda x=x: x)
            outs, unstable = [], False
            for i, r in enumerate(um):
                a, b = _call(r, mk()), _call(r, mk())
                unstable |= a != b
                outs.append({"none": names[i] == "None", "ok": a[0], "v": a[1]})
            if unstable:
                continue     # e.g. time-of-day inputs resolved against "now"
            ok, v = _call(U, mk())
            events.append({"tid": tid, "dir": "unmarshal", "names": list(names), "how": how, "inp": j, "pass": pas,
                           "members": outs, "xnone": x is None, "nonekey": nonekey, "res": {"ok": ok, "v": v}})
            if pas == 1:
                # the one-shot entry point is held to the same reference
                ok, v = _call(lambda y: typelib.unmarshal(ann, y), mk())
                events.append({"tid": tid, "dir": "unmarshal", "names": list(names), "how": how, "inp": j, "pass": 3,
                               "members": outs, "xnone": x is None, "nonekey": nonekey, "res": {"ok": ok, "v": v}})
    for j, x in enumerate(mvalues):
        outs, unstable = [], False
        for i, r in enumerate(mm):
            a, b = _call(r, x), _call(r, x)
            unstable |= a != b
            outs.append({"none": names[i] == "None", "ok": a[0], "v": a[1]})
        if unstable:
            continue
        ok, v = _call(M, x)
        events.append({"tid": tid, "dir": "marshal", "names": list(names), "how": how, "inp": j, "pass": 1,
                       "members": outs, "xnone": x is None, "nonekey": nonekey, "res": {"ok": ok, "v": v}})
        ok, v = _call(lambda y: typelib.marshal(y, t=ann), x)
        events.append({"tid": tid, "dir": "marshal", "names": list(names), "how": how, "inp": j, "pass": 3,
                       "members": outs, "xnone": x is None, "nonekey": nonekey, "res": {"ok": ok, "v": v}})
    return events


def _abstract(e):
    return (e["dir"], tuple((m["none"], m["ok"]) for m in e["members"]), e["xnone"])


def _mk_violations(rejects, events, inputs, mvalues):
    out = []
    for r in rejects:
        e = events[r["rej"] - 1]
        pool_ = inputs if e["dir"] == "unmarshal" else mvalues
        x = pool_[e["inp"]]
        none_pos = [i for i, n in enumerate(e["names"]) if n == "None"]
        out.append(Violation(
            clause="Union." + r["clause"],
            case={"names": e["names"], "how": e["how"], "dir": e["dir"], "inp": e["inp"], "input_repr": repr(x)[:80],
                  "pass": e["pass"]},
            fields={"dir": e["dir"], "none_last": (not none_pos) or none_pos[0] == len(e["names"]) - 1,
                    "has_none": bool(none_pos), "pass": e["pass"],
                    "member_excs": sorted({m["v"] for m in e["members"] if not m["ok"]}),
                    "got_ok": e["res"]["ok"]},
            msg=f"{e['dir']} {e['how']}{e['names']} on {repr(x)[:60]}: got {e['res']} want {r['want']} members={e['members']}"))
    return out


def run(ctx: Ctx) -> Outcome:
    rng = random.Random(ctx.seed)
    quick = ctx.quick
    # 1. model level
    res = tlc.must(tlc.run("Union", "MC_Union.cfg", workers=8, coverage=True), "Union model")
    old = tlc.run("Union", "MC_Union_old.cfg", workers=4)
    if old.ok or "Refines" not in old.stdout:
        raise tlc.MachineryError("Union model is not sensitive: the old rotation/suppress configuration "
                                 "must violate Refines")
    # 2/3. real code
    tys, inputs, mvalues = pool()
    tuples = enumerate_tuples(list(tys), quick, rng)
    events = []
    tid = 0
    for names in tuples:
        hows = ["Union", "pipe"]
        if names[-1] == "None" and len(names) >= 2:
            hows.append("Optional")
        if quick and len(names) > 2:
            hows = [rng.choice(hows)]
        for how in hows:
            tid += 1
            events += run_tuple(tys, names, how, inputs, mvalues, rng, tid)
    clear_typelib_caches()
    slim = [{k: e[k] for k in ("members", "xnone", "nonekey", "res")} for e in events]
    tres, rejects = tlc.validate_trace("Union_Trace", "Union_Trace.cfg", slim, timeout=3600)
    viol = _mk_violations(rejects, events, inputs, mvalues)
    abstract = {_abstract(e) for e in events}
    nontrivial = {(tuple(e["names"]), e["how"], e["dir"], e["inp"]) for e in events
                  if sum(1 for m in e["members"] if m["ok"]) >= 1 and not e["members"][0]["ok"]}
    sample = events[len(events) // 3]
    cov = {
        "states": res.distinct, "transitions": res.generated, "exhaustive": True,
        "traces_validated_against_impl": len(events),
        "evaluations": len(events),
        "distinct_nontrivial": len(nontrivial),
        "rule": "model: every member tuple of length 2..4 x None placement x outcome assignment x direction; "
                "real: ordered member tuples over the 16-type pool (incl. a class and a subclass that re-types the inherited member) (all pairs; 3- and 4-tuples sampled in quick, "
                "all 3-tuples in thorough) x spellings x input pool, two passes in different input orders on the "
                "same routine; non-trivial = the first member rejects and a later member accepts",
        "union_annotations": tid,
        "abstract_cases_realised": len(abstract),
        "model_action_coverage": res.coverage,
        "old_revision_counterexample": "MC_Union_old.cfg violates Refines as expected",
        "samples": [{k: sample[k] for k in ("names", "how", "dir", "inp", "members", "res")}],
    }
    return Outcome(level="model_checking", coverage=cov, violations=viol,
                   assumptions=["member outcomes come from independently built member routines in the same process",
                                "all typelib memos are cleared before each union annotation (Union equality ignores order)",
                                "results are compared as projected terms including runtime classes"])


def replay(ctx: Ctx, rep: dict) -> Outcome:
    tys, inputs, mvalues = pool()
    c = rep["case"]
    ev = run_tuple(tys, tuple(c["names"]), c["how"], inputs, mvalues, random.Random(ctx.seed), 1)
    slim = [{k: e[k] for k in ("members", "xnone", "nonekey", "res")} for e in ev]
    _, rejects = tlc.validate_trace("Union_Trace", "Union_Trace.cfg", slim)
    v = _mk_violations(rejects, ev, inputs, mvalues)
    for x in v[:10]:
        print("  ", x.msg)
    return Outcome(level="model_checking", coverage={"evaluations": len(ev)}, violations=v)
