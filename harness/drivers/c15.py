"""C15 -- every valid annotation yields working routines (Terms.tla extended grammar, Member_Trace.tla "build")."""
from __future__ import annotations

import collections
import json
import random
import warnings

from .. import tlc, valuestream as vs
from ..core import Ctx, Outcome, Violation
from ..terms import Deadline, clear_typelib_caches, with_deadline, vkey

PASS = {"Any", "object", "T_free", "Callable", "CallableBare", "CallableEll", "type[int]", "typing.Type"}


# classes without hints of the extended grammar: the members a mapping input can name
NOHINT_MEMBERS = {"NoHints": ["a", "b"], "VarHints": ["host", "port"], "KwOnly": ["a", "b"]}


class Sentinel:
    """An object no routine knows: must come back as the very same object at pass-through positions."""

    def __repr__(self):
        return "<sentinel>"


def universe(profile):
    cfg = open(tlc.SPEC_DIR + "/MC_Terms.cfg").read().replace('"quick"', f'"{profile}"')
    res = tlc.must(tlc.run("Terms", cfg_text=cfg, workers=8), "Terms extended universe")
    emit = tlc.must(tlc.run("Terms", cfg_text=cfg.replace("Emit = FALSE", "Emit = TRUE"), workers=1), "Terms ext emit")
    types = [p for p in emit.printed if isinstance(p, dict) and "k" in p]
    types.sort(key=lambda t: json.dumps(t, sort_keys=True))
    return types, res


def probe_value(T, s, depth=0):
    """An input for T that places the sentinel at a pass-through position, and how to find it again
    in the result; None if T has no pass-through position we know how to reach."""
    k = T["k"]
    if k == "ext" and T["n"] in PASS:
        return s, (lambda r: r)
    if k == "ext" and T["n"] in NOHINT_MEMBERS:
        # a class without hints: every constructor parameter that can be given by name is a pass-through member
        names = NOHINT_MEMBERS[T["n"]]
        marks = {n: Sentinel() for n in names}
        marks[names[-1]] = s

        def find_all(r):
            get = (lambda n: r[n]) if isinstance(r, dict) else (lambda n: getattr(r, n))
            return s if all(get(n) is marks[n] for n in names) else None
        return dict(marks), find_all
    if depth > 3:
        return None
    if k == "coll":
        sub = probe_value(T["a"], s, depth + 1)
        if sub and T["c"] in ("list", "tuple", "deque"):
            return [sub[0]], (lambda r: sub[1](list(r)[0]))
    if k == "map":
        sub = probe_value(T["va"], s, depth + 1)
        if sub:
            return {"k": sub[0]}, (lambda r: sub[1](r["k"]))
    if k == "tup":
        sub = probe_value(T["xs"][0], s, depth + 1)
        if sub:
            rest = [([] if x["k"] == "coll" else 1) for x in T["xs"][1:]]
            return [sub[0], *rest], (lambda r: sub[1](r[0]))
    if k == "union" and T["sp"] == "Optional":
        sub = probe_value(T["xs"][0], s, depth + 1)
        if sub:
            return sub
    if k == "fieldof":
        sub = probe_value(T["a"], s, depth + 1)
        if sub:
            return {"x": sub[0]}, (lambda r: sub[1](r["x"] if isinstance(r, dict) else r.x))
    return None


def observe(T, env):
    import typelib
    try:
        ann = env.annotation(T)
    except Exception as e:
        return None, f"materialise: {e!r}"
    ev = {"ev": "build", "out": {"k": "ok", "r": {"k": "none", "cls": "NoneType"}}, "passthrough": True, "repeatable": True}
    detail = ""

    def build():
        return (with_deadline(3, typelib.unmarshaller, ann), with_deadline(3, typelib.marshaller, ann),
                with_deadline(3, typelib.codec, ann))
    try:
        U, M, C = build()
    except Deadline:
        ev["out"] = {"k": "raised", "e": "NonTermination"}
        return ev, "build"
    except RecursionError:
        ev["out"] = {"k": "raised", "e": "RecursionError"}
        return ev, "build"
    except Exception as e:
        ev["out"] = {"k": "raised", "e": type(e).__name__}
        return ev, f"build: {e!r}"[:200]
    s = Sentinel()
    pv = probe_value(T, s)
    outs = []
    if T["k"] == "union" and any(m["k"] == "ext" and m["n"] in PASS for m in T["xs"]):
        # a union with a pass-through member takes everything: what the other members reject -- with whatever exception --
        # comes back as it is
        for x in ("abc", "1/0", "[a-", "1e", 1.5, None, object()):
            for name, fn in (("unmarshal", U), ("marshal", M)):
                try:
                    with_deadline(3, fn, x)
                except Exception as e:
                    ev["passthrough"] = False
                    detail = detail or f"{name}({x!r}) raised {e!r} although a member of the union accepts anything"[:200]
    if pv is not None:
        x, find = pv
        # (the routines, and the one-shot entry points for the same annotation: what passes through a routine passes through them)
        for name, fn in (("unmarshal", U), ("marshal", M), ("unmarshal()", lambda y: typelib.unmarshal(ann, y)),
                         ("marshal()", lambda y: typelib.marshal(y, t=ann))):
            try:
                r = with_deadline(3, fn, x)
                same = find(r) is s
            except Exception as e:
                same = False
                detail = f"{name} raised {e!r}"[:160]
            if not same:
                ev["passthrough"] = False
                detail = detail or f"{name}: sentinel not passed through"
            outs.append(same)
    if T["k"] == "ext" and T["n"] in PASS:
        # a pass-through root given a container that holds the sentinel: the member comes back as the very object, through the
        # routines and through the one-shot entry points alike
        for x, find in (([s], lambda r: r[0]), ({"k": s}, lambda r: r["k"]), ({s}, lambda r: next(iter(r)))):
            for name, fn in (("unmarshal", U), ("marshal", M), ("unmarshal()", lambda y: typelib.unmarshal(ann, y)),
                             ("marshal()", lambda y: typelib.marshal(y, t=ann))):
                try:
                    same = find(with_deadline(3, fn, x)) is s
                except Exception as e:
                    same = False
                    detail = detail or f"{name}({type(x).__name__} holding the sentinel) raised {e!r}"[:160]
                if not same:
                    ev["passthrough"] = False
                    detail = detail or f"{name}: sentinel inside a {type(x).__name__} not passed through"
    # repeatable: build again (memoised), and once more after clearing every cache: same behaviour on the probe
    def shown(r):
        if isinstance(r, Sentinel):
            return "sentinel"
        if isinstance(r, (list, tuple, collections.deque)):
            return type(r).__name__ + "[" + ",".join(shown(x) for x in list(r)[:4]) + "]"
        if isinstance(r, (set, frozenset)):
            return type(r).__name__ + "[" + ",".join(sorted(shown(x) for x in r)[:4]) + "]"
        if isinstance(r, dict):
            return "{" + ",".join(f"{k}:{shown(v)}" for k, v in list(r.items())[:4]) + "}"
        if hasattr(r, "__dict__") and type(r).__module__.startswith("verif_"):
            return type(r).__name__ + shown(vars(r))
        return f"{type(r).__name__}:{r!r}"[:60]

    def behaviour(U2, M2, C2):
        outs = []
        for x in ([pv[0]] if pv else []) + ["1", {"a": "1", "b": "2.5", "x": "3", "v": "4"}, ["5"]]:
            try:
                r = with_deadline(3, U2, x)
                outs.append("u:" + shown(r))
            except Exception as e:
                outs.append("u-raised:" + type(e).__name__)
                continue
            try:
                outs.append("m:" + shown(with_deadline(3, M2, r)))
            except Exception as e:
                outs.append("m-raised:" + type(e).__name__)
            try:
                outs.append("c:" + shown(with_deadline(3, C2.decode, with_deadline(3, C2.encode, r))))
            except Exception as e:
                outs.append("c-raised:" + type(e).__name__)
        return "|".join(outs)
    # repeatable: same behaviour (a) memoised, (b) rebuilt from cold caches in the same order,
    # (c) rebuilt from cold caches in the opposite order (codec, marshaller, unmarshaller)
    # the graph of the annotation can be walked again and again (the uncached entry point)
    try:
        from typelib import graph as tgraph
        g1 = [repr(n.type) for n in tgraph.itertypes(ann)]
        g2 = [repr(n.type) for n in tgraph.itertypes(ann)]
        if g1 != g2:
            ev["repeatable"] = False
            detail = detail or "graph.itertypes gives another node sequence the second time"
    except Exception as e:
        ev["repeatable"] = False
        detail = detail or f"graph.itertypes raised the second time: {e!r}"[:160]
    try:
        b0 = behaviour(U, M, C)
        b1 = behaviour(typelib.unmarshaller(ann), typelib.marshaller(ann), typelib.codec(ann))
        clear_typelib_caches()
        U2 = typelib.unmarshaller(ann); M2 = typelib.marshaller(ann); C2 = typelib.codec(ann)
        b2 = behaviour(U2, M2, C2)
        clear_typelib_caches()
        C3 = typelib.codec(ann); M3 = typelib.marshaller(ann); U3 = typelib.unmarshaller(ann)
        b3 = behaviour(U3, M3, C3)
    except Exception as e:
        b0 = "x"; b1 = b2 = b3 = "rebuild raised " + type(e).__name__
    if not (b0 == b1 == b2 == b3):
        ev["repeatable"] = False
        detail = detail or f"behaviour differs between builds: {b0[:80]} / {b1[:80]} / {b2[:80]} / {b3[:80]}"
    return ev, detail


def run(ctx: Ctx) -> Outcome:
    warnings.simplefilter("ignore")
    profile = "ext_quick" if ctx.quick else "ext_full"
    types, model = universe(profile)
    defs, _, _ = vs.universe("quick")
    env = vs.make_env(defs)
    clear_typelib_caches()
    events, meta = [], []
    for T in types:
        ev, detail = observe(T, env)
        if ev is None:
            raise tlc.MachineryError(f"cannot materialise {T}: {detail}")
        events.append(ev)
        meta.append((T, detail))
    # the ordinary universe must build as well
    _, utypes, _ = vs.universe("quick" if ctx.quick else "full")
    for T in utypes:
        ev, detail = observe(T, env)
        events.append(ev); meta.append((T, detail))
    tres, rejects = tlc.validate_trace("Member_Trace", "Member_Trace.cfg", events, timeout=7200)
    viol = []
    for r in rejects:
        T, detail = meta[r["rej"] - 1]
        names = sorted(set(json.dumps(T).split('"n": "')[1:])) if '"ext"' in json.dumps(T) else []
        exts = sorted({x.split('"')[0] for x in json.dumps(T).split('"k": "ext", "n": "')[1:]} | {x.split('"')[0] for x in json.dumps(T).split('"n": "')[1:] if '"k": "ext"' in json.dumps(T)})
        viol.append(Violation(clause=r["clause"], case={"T": T},
                              fields={"root": T["k"], "ext": exts[:3]},
                              msg=f"{json.dumps(T)[:200]} {detail}"))
    # the routine factory itself: spec/Factory.tla and the routine tables the real factory builds (shared with C05;
    # here with direct class-typed fields in the quick tier as well)
    from . import c05
    rviol, rcov, rdrift, rn = c05.routing(ctx, direct_small=ctx.quick)
    viol += rviol
    probed = sum(1 for T, _ in meta if probe_value(T, object()) is not None)
    cov = {"states": model.distinct + rcov["factory_model_states"], "transitions": model.generated + rcov["factory_model_transitions"],
           "exhaustive": True, **rcov,
           "traces_validated_against_impl": len(events) + rn, "evaluations": len(events) + rn,
           "distinct_nontrivial": len({json.dumps(T, sort_keys=True) for T, _ in meta if T["k"] not in ("prim", "ext")}),
           "extended_annotations": len(types), "universe_annotations": len(utypes), "passthrough_probed": probed,
           "rule": "every annotation of the extended grammar emitted by TLC (28 extension leaves: Any, object, bare builtin and typing "
                   "generics, free/bound/constrained TypeVars, Callable forms, type[X], user generics bare and parameterised, classes "
                   "without hints; under list/Sequence/tuple/deque/dict/Mapping/fixed tuple/two variadic tuples/Optional/Union/class "
                   "field; depth 2 over all leaves in thorough) plus the ordinary universe: unmarshaller, marshaller and codec are "
                   "built under a watchdog, a sentinel object is sent through every reachable pass-through position, and the routine "
                   "is rebuilt memoised and after clearing all caches; non-trivial = composite annotation",
           "samples": [{"T": meta[len(types) // 2][0], "event": events[len(types) // 2]}]}
    cov["rule"] += ("; routine factory: spec/Factory.tla model-checked (graph walk, context writes, member resolution, proxies; four wrong "
                    "variants must fail), its (topology, root) cases materialised and the real unmarshaller / marshaller tables judged by "
                    "Factory_Trace.tla (a resolvable member never gets a no-op routine, the root routine is real, proxies denote types)")
    return Outcome(level="model_checking", coverage=cov, violations=viol, impl_drift=rdrift,
                   assumptions=["pass-through is probed where the harness knows how to reach the position (list/tuple/deque/dict value/"
                                "first tuple member/Optional/class field)"])


def replay(ctx: Ctx, rep: dict) -> Outcome:
    warnings.simplefilter("ignore")
    if rep["case"].get("routing"):
        from . import c05
        return c05.replay(ctx, rep)
    defs, _, _ = vs.universe("quick")
    env = vs.make_env(defs)
    ev, detail = observe(rep["case"]["T"], env)
    print("  ", ev, detail)
    _, rejects = tlc.validate_trace("Member_Trace", "Member_Trace.cfg", [ev])
    return Outcome(level="model_checking", coverage={"evaluations": 1},
                   violations=[Violation(clause=r["clause"], case=rep["case"], fields={}, msg=detail) for r in rejects])
