"""C14 -- text-like inputs are interchangeable (spec/Carriers.tla, Carriers_Trace.tla)."""
from __future__ import annotations

import ast
import hashlib
import json
import random
import warnings

from .. import carriers, tlc, valuestream as vs
from ..core import Ctx, Outcome, Violation
from ..terms import clear_typelib_caches, project
from ..typeterms import TEXT_POOL, values
from ..zygote import deep_mutate
from .c02 import json_safe
from .c03 import shape

CARRIERS = carriers.CARRIERS
EXTRA_TEXTS = ['{"a": [1, {"b": [2]}]}', "(1, [2, 3])", "[[1], [2]]", '{"a":', "[1,", "\x00", "éè", "  [1]  ", "0123", "1_000", "...", '"\\ud83d\\ude00"', "[1, 2, 3]",
               '{"x": 1, "y": "s"}', '["a", "b"]', "{'a': 1}", "('a', 1)", "{1, 2}", "1,2", "a b", "-0", "1.50", "\t\n", "nul",
               "[]", "{}", '""', "''", "0", "-1", "2020-01-01T00:00:00+00:00", "P1D", "a/b",
               "\ufeffabc", "\ufeff12", "\ufeff[1, 2]", "\u200b1", "\xa01", "１２",
               # a document after a line break / other blanks the parsers skip
               "\n[1, 2]", "\r\n{\"a\": 1}", "\n12", " \t\n null", "\n\"abc\"", "[1, 2]\n", "\x0c[1]", "\n(1, 2)", "\nabc"]
ALWAYS = ["\ufeff12", "\ufeff[1, 2]", "\ufeffabc", " 1 ", "１２", "\n[1, 2]", "\n12"]


def carry(c, s):
    return carriers.carry(c, s, "surrogatepass")


def intact(x, s):
    return carriers.intact(x, s, "surrogatepass")


def facts(s):
    """What the standard library says about a text (never typelib)."""
    f = {"isjson": False, "json": {"k": "none", "cls": "NoneType"}, "isliteral": False, "ambiguous": False}
    try:
        strict = json.loads(s, parse_constant=lambda c: (_ for _ in ()).throw(ValueError(c)))
        f["isjson"] = True
        f["json"] = project(strict)
        # numbers outside what every JSON decoder agrees on (overflowing floats) are not asserted
        if "inf" in json.dumps(f["json"]) or "nan" in json.dumps(f["json"]).lower():
            f["ambiguous"] = True
    except ValueError:
        try:
            json.loads(s)
            f["ambiguous"] = True          # only a lenient decoder accepts it (NaN, Infinity)
        except ValueError:
            pass
    except RecursionError:
        f["ambiguous"] = True
    try:
        ast.literal_eval(s)
        f["isliteral"] = True
    except (ValueError, SyntaxError, TypeError, MemoryError, RecursionError):
        pass
    return f


def _shrink(t):
    """Long strings inside a projected term -> a digest (the same on both sides of a comparison); long lists of equal items
    -> their first items plus a count."""
    if isinstance(t, str):
        return t if len(t) <= 2000 else f"big:{hashlib.sha1(t.encode('utf-8', 'surrogatepass')).hexdigest()}:{len(t)}"
    if isinstance(t, list):
        if len(t) > 200 and all(x == t[0] for x in t):
            return [_shrink(t[0]), f"times:{len(t)}"]
        return [_shrink(x) for x in t]
    if isinstance(t, dict):
        return {k: _shrink(v) for k, v in t.items()}
    return t


def collect(ctx: Ctx, profile: str, quick: bool):
    import typelib
    from typelib import serdes
    rng = random.Random(ctx.seed)
    defs, types, model = vs.universe(profile)
    env = vs.make_env(defs)
    warnings.simplefilter("ignore")
    clear_typelib_caches()
    events, meta = [], []
    # (two texts of more than 64 KiB: prose, and a JSON list; long texts are replaced by a digest on both sides of an event)
    texts = list(dict.fromkeys(TEXT_POOL + EXTRA_TEXTS + ["lorem ipsum " * 6000, "=" * 70000, json.dumps(["item"] * 9000)]))
    # ---- load / strload / decode over the text pool in all carriers, plus non-text inputs
    for s in texts:
        f = facts(s)
        if f["ambiguous"]:
            continue
        for c in CARRIERS:
            for fname, fn in (("load", serdes.load), ("strload", serdes.strload)):
                x = carry(c, s)
                out, r = vs.out_of(fn, x)
                events.append({"ev": "load", "text": True, "isjson": f["isjson"], "json": f["json"], "isliteral": f["isliteral"],
                               "astext": project(s), "out": out, "same": True, "intact": intact(x, s)})
                meta.append({"fn": fname, "carrier": c, "text": s})
                # the caller modifies the container it was given (at every level): the next call must not notice
                if isinstance(r, (list, dict, set, tuple)) and deep_mutate(r):
                    out2, _ = vs.out_of(fn, carry(c, s))
                    events.append({"ev": "load", "text": True, "isjson": f["isjson"], "json": f["json"], "isliteral": f["isliteral"],
                                   "astext": project(s), "out": out2, "same": True, "intact": True})
                    meta.append({"fn": fname + ":after-mutation", "carrier": c, "text": s})
            x = carry(c, s)
            out, r = vs.out_of(serdes.decode, x)
            events.append({"ev": "load", "text": True, "isjson": False, "json": f["json"], "isliteral": False,
                           "astext": project(s), "out": out, "same": True, "intact": intact(x, s)})
            meta.append({"fn": "decode", "carrier": c, "text": s})
    for e in events:
        for key in ("json", "astext", "out"):
            e[key] = _shrink(e[key])
    import array
    for x in (None, 1, 1.5, True, [1], {"a": 1}, (1, 2), object(), env.obj("D1")(a=1, b="s"), array.array("i", [1, 2, 3]), array.array("d", [1.5]),
              range(3), frozenset({1})):
        for fname, fn in (("load", serdes.load), ("decode", serdes.decode)):
            try:
                r = fn(x); out = {"k": "ok", "r": project(r)}; same = r is x
            except Exception as e:
                out = {"k": "raised", "e": type(e).__name__}; same = False
            events.append({"ev": "load", "text": False, "isjson": False, "json": {"k": "none", "cls": "NoneType"}, "isliteral": False,
                           "astext": {"k": "none", "cls": "NoneType"}, "out": out, "same": same, "intact": True})
            meta.append({"fn": fname, "carrier": "non-text", "text": repr(x)[:40]})
    # ---- carrier freedom and text/value equivalence per type
    small = [s for s in texts if len(s) <= 5000]
    big = [s for s in texts if len(s) > 5000]
    for ti, T in enumerate(types):
        ann = env.annotation(T)
        # (the texts of more than 64 KiB go to every 97th type only: each costs 16 calls with up to 9,000 elements)
        pool = rng.sample(small, 10 if quick else 24) + ALWAYS + (big if ti % 97 == 0 else [])
        wires = []
        for v in values(T, env, rng, 2):
            try:
                w = typelib.marshal(v, t=ann)
            except Exception:
                continue
            wires.append(w)
            try:
                pool.append(json.dumps(w))
            except (TypeError, ValueError):
                pass
            pool.append(repr(w))
        for s in dict.fromkeys(pool):
            try:
                s.encode("utf-8")
            except UnicodeEncodeError:
                continue
            xs = [carry(c, s) for c in CARRIERS]
            outs = [vs.out_of(typelib.unmarshal, ann, x)[0] for x in xs]
            # the caller's object survives the call, and handing the very same object over again gives the same outcome
            alive = all(intact(x, s) for x in xs)
            again = [vs.out_of(typelib.unmarshal, ann, x)[0] for x in xs]
            events.append({"ev": "carrier", "outs": outs, "intact": alive, "again": again == outs})
            meta.append({"T": T, "text": s})
        k = T["k"]
        if k in ("coll", "map", "tup", "cls"):
            for w in wires:
                if not isinstance(w, (list, dict)):
                    continue
                try:
                    js = json.dumps(w)
                    if json.loads(js) != w or not json_safe(w):      # non-str keys, integers beyond 64 bits (read as floats by
                        continue                                     # the default decoder): the JSON text does not stand for this value
                except (TypeError, ValueError):
                    continue
                byvalue, _ = vs.out_of(typelib.unmarshal, ann, w)
                byjson, _ = vs.out_of(typelib.unmarshal, ann, js)
                byrepr, _ = vs.out_of(typelib.unmarshal, ann, repr(w))
                events.append({"ev": "texteq", "byvalue": byvalue, "byjson": byjson, "byrepr": byrepr})
                meta.append({"T": T, "text": js})
    return events, meta, model, len(types)


def _violations(rejects, events, meta):
    out = []
    for r in rejects:
        e, m = events[r["rej"] - 1], meta[r["rej"] - 1]
        raised = []
        if e["ev"] == "carrier":
            raised = [c for c, o in zip(CARRIERS, e["outs"]) if o["k"] == "raised"]
        out.append(Violation(clause=r["clause"], case=m,
                             fields={"fn": m.get("fn", "unmarshal"), "carrier": m.get("carrier", ""), "rejecting_carriers": raised,
                                     "root_shape": shape(m["T"]) if "T" in m else ""},
                             msg=f"{json.dumps(m)[:200]} -> {json.dumps(e.get('outs') or e.get('out') or [e.get('byvalue'), e.get('byjson'), e.get('byrepr')])[:300]}"))
    return out


def run(ctx: Ctx) -> Outcome:
    profile = "quick" if ctx.quick else "full"
    res = tlc.must(tlc.run("MC_Carriers", "MC_Carriers.cfg", workers=4), "Carriers model")
    old = tlc.run("MC_Carriers", "MC_Carriers_old.cfg", workers=2)
    if old.ok or "CarrierFree" not in old.stdout:
        raise tlc.MachineryError("Carriers model not sensitive: the memoised-on-the-carrier configuration must violate CarrierFree")
    shared = tlc.run("MC_Carriers", "MC_Carriers_shared.cfg", workers=2)
    if shared.ok or "CarrierFree" not in shared.stdout:
        raise tlc.MachineryError("Carriers model not sensitive: handing out the memo's own containers must violate CarrierFree")
    for cfg, inv in (("MC_Carriers_exporter.cfg", "CarrierFree"), ("MC_Carriers_release.cfg", "InputIntact")):
        r = tlc.run("MC_Carriers", cfg, workers=2)
        if r.ok or inv not in r.stdout:
            raise tlc.MachineryError(f"Carriers model not sensitive: {cfg} must violate {inv}")
    events, meta, model, ntypes = collect(ctx, profile, ctx.quick)
    tres, rejects = tlc.validate_trace("Carriers_Trace", "Carriers_Trace.cfg", events, timeout=7200)
    viol = _violations(rejects, events, meta)
    nontrivial = {(json.dumps(m.get("T"), sort_keys=True), m["text"]) for e, m in zip(events, meta)
                  if e["ev"] == "carrier" and e["outs"][0]["k"] == "ok"}
    cov = {"states": res.distinct + model.distinct, "transitions": res.generated + model.generated, "exhaustive": True,
           "traces_validated_against_impl": len(events), "evaluations": len(events) ,
           "distinct_nontrivial": len(nontrivial), "types": ntypes,
           "load_events": sum(1 for e in events if e["ev"] == "load"), "carrier_events": sum(1 for e in events if e["ev"] == "carrier"),
           "texteq_events": sum(1 for e in events if e["ev"] == "texteq"),
           "rule": "model: every history of length<=3 of load() calls and caller-side mutations of returned containers over 6 texts x 8 "
                   "carriers with the memo as state; real: load/strload/decode (load/strload again after deep-mutating the returned container) "
                   "over ~80 texts (numeric/boolean/null look-alikes, malformed JSON, control characters, non-ASCII, JSON surrogate "
                   "escapes) x 8 carriers with json/ast facts from the standard library; every type of the TLC universe x (text pool "
                   "sample + JSON and repr renderings of its wire values) x 8 carriers; JSON text vs literal text vs decoded value for "
                   "collection/mapping/structured types; non-trivial = the str carrier is accepted, distinct by (type, text)",
           "samples": [dict(meta[len(meta) // 2], event=events[len(events) // 2])]}
    return Outcome(level="model_checking", coverage=cov, violations=viol,
                   assumptions=["JSON facts come from the standard json module in strict mode; texts on which strict and lenient decoders "
                                "disagree (NaN, Infinity, overflowing floats) are not asserted"])


def replay(ctx: Ctx, rep: dict) -> Outcome:
    events, meta, _, _ = collect(Ctx(pid="C14", tier="quick", seed=ctx.seed), "quick", True)
    c = rep["case"]
    sel = [(e, m) for e, m in zip(events, meta) if m == c]
    for e, m in sel:
        print("  ", m, json.dumps(e)[:300])
    ev = [e for e, _ in sel]
    if not ev:
        return Outcome(level="model_checking", coverage={"evaluations": 0}, violations=[])
    _, rejects = tlc.validate_trace("Carriers_Trace", "Carriers_Trace.cfg", ev)
    return Outcome(level="model_checking", coverage={"evaluations": len(ev)}, violations=_violations(rejects, ev, [m for _, m in sel]))
