"""C03 -- unmarshal never returns a value outside the target type (spec/Wire.tla Conf, Wire_Trace.tla)."""
from __future__ import annotations

import json
import random
import warnings

from .. import tlc, valuestream as vs
from ..core import Ctx, Outcome, Violation
from ..terms import clear_typelib_caches
from ..typeterms import values


def shape(T):
    k = T["k"]
    if k in ("prim",):
        return "prim:" + T["n"]
    if k == "coll":
        return f"coll:{T['c']}"
    if k == "cls":
        return "cls:" + T["c"]
    return k


def input_class(x):
    if isinstance(x, (str, bytes, bytearray, memoryview)):
        return "text"
    if isinstance(x, dict):
        return "dict"
    if isinstance(x, (list, tuple, set, frozenset)):
        return type(x).__name__
    return type(x).__name__ if type(x).__module__ == "builtins" else "object"


def _pass(types, defs, seed, junk_per_type):
    """One process-order of the universe: unmarshal junk and corrupted wire forms for every type."""
    import typelib
    rng = random.Random(seed)
    env = vs.make_env(defs)
    events, meta = [], []
    respell: list = []
    warnings.simplefilter("ignore")
    clear_typelib_caches()
    for T in types:
        try:
            ann = env.annotation(T)
        except Exception as e:
            raise tlc.MachineryError(f"cannot materialise {T}: {e!r}")
        inputs = []
        junk = vs.junk_pool(env)
        idx = list(range(len(junk)))
        if junk_per_type is not None and junk_per_type < len(idx):
            idx = sorted(set(rng.sample(idx, junk_per_type)) | set(idx[-10:]))      # the protocol-bending values and attribute names always
        inputs += [("junk", i, junk[i]) for i in idx]
        for j, v in enumerate(values(T, env, rng, 2)):
            try:
                w = typelib.marshal(v, t=ann)
            except Exception:
                continue
            for c, x in enumerate(vs.corruptions(w, rng)):
                inputs.append(("corrupt", f"{j}.{c}", x))
            # the same value with its class positions given as instances of exactly those classes holding raw (wire) members
            ri, replaced = vs.raw_instance(T, w, env, defs)
            if replaced:
                inputs.append(("rawinst", f"{j}", ri))
        for kind, ident, x in inputs:
            out, _ = vs.out_of(typelib.unmarshal, ann, x)
            events.append({"ev": "unmarshal", "T": T, "out": out})
            meta.append((kind, ident, repr(x)[:120], input_class(x)))
        if T["k"] in ("coll", "map", "tup", "union") and inputs:
            respell.append((T, [i for i in inputs if i[0] != "junk"][:3] + inputs[:2]))
    # the same annotations spelled anew for every call (`unmarshal(list[int], x)` written inline: the annotation object dies with
    # the call); three rounds over a sample, other types in between
    sample = rng.sample(respell, min(len(respell), 60))
    for rnd in range(3):
        rng.shuffle(sample)
        for T, ins in sample:
            for kind, ident, x in ins:
                out, _ = vs.out_of(typelib.unmarshal, env.annotation(T), x)
                events.append({"ev": "unmarshal", "T": T, "out": out})
                meta.append((kind + ":respelled", ident, repr(x)[:120], input_class(x)))
    return events, meta


def opt_pass(profile: str, seed: int):
    """Run in an interpreter started with -O (assert statements compiled away, __debug__ False): the fixed-tuple and
    structured types of the universe once more.  What a routine rejects it rejects in every interpreter mode."""
    defs, types, _ = vs.universe(profile)
    sub = [T for T in types if '"tup"' in json.dumps(T) or T["k"] == "cls"][:160]
    ev, me = _pass(sub, defs, seed, 6)
    return {"events": ev, "meta": me, "optimized": not __debug__}


def _opt_child(profile: str, seed: int):
    import subprocess
    import sys
    verif = __file__.rsplit("/harness/", 1)[0]
    code = (f"import sys, json; sys.path.insert(0, {verif!r}); from harness.drivers import c03; "
            f"print('@@OPT@@' + json.dumps(c03.opt_pass({profile!r}, {seed})))")
    p = subprocess.run([sys.executable, "-O", "-B", "-c", code], capture_output=True, text=True, timeout=1800)
    line = next((ln for ln in p.stdout.splitlines() if ln.startswith("@@OPT@@")), None)
    if line is None:
        raise tlc.MachineryError("optimised-interpreter pass failed: " + (p.stderr or p.stdout)[-400:])
    out = json.loads(line[7:])
    if not out["optimized"]:
        raise tlc.MachineryError("the -O child did not run optimised")
    return out


def collect(ctx: Ctx, profile: str, junk_per_type: int | None):
    """The universe in order in this process and, concurrently, in two other orders in forked processes that have
    not called typelib yet (reverse; class-free types first and variadic before fixed tuples): routines that share build-time state (handler
    lookups, hints, contexts -- also state that no cache_clear() reaches) are first built in different orders."""
    import os
    defs, types, model = vs.universe(profile)
    mentions_cls = lambda T: '"cls"' in json.dumps(T)      # noqa: E731
    orders = {"reverse": types[::-1],
              "class_free_first": sorted(types, key=lambda T: (mentions_cls(T), '"tup"' in json.dumps(T), len(json.dumps(T))))}
    children = []
    for k, (oname, order) in enumerate(orders.items(), 1):
        r, w = os.pipe()
        pid = os.fork()
        if pid == 0:
            os.close(r)
            try:
                ev, me = _pass(order, defs, ctx.seed + k, 8 if junk_per_type is not None else 24)
                payload = json.dumps({"events": ev, "meta": me})
            except BaseException as e:
                payload = json.dumps({"error": repr(e)[:300]})
            with os.fdopen(w, "w") as fh:
                fh.write(payload)
            os._exit(0)
        os.close(w)
        children.append((oname, pid, r))
    events, meta = _pass(types, defs, ctx.seed, junk_per_type)
    meta = [m + ("forward",) for m in meta]
    for oname, pid, r in children:
        with os.fdopen(r) as fh:
            child = json.loads(fh.read() or '{"error": "no output"}')
        os.waitpid(pid, 0)
        if "error" in child:
            raise tlc.MachineryError(f"{oname}-order process failed: " + child["error"])
        events += child["events"]
        meta += [tuple(m) + (oname,) for m in child["meta"]]
    opt = _opt_child(profile, ctx.seed + 7)
    events += opt["events"]
    meta += [tuple(m) + ("python -O",) for m in opt["meta"]]
    return events, meta, model, len(types)


def _violations(rejects, events, meta):
    out = []
    for r in rejects:
        e = events[r["rej"] - 1]
        kind, ident, xrepr, xclass, order = meta[r["rej"] - 1]
        clause = r["clause"]
        out.append(Violation(
            clause=clause,
            case={"T": e["T"], "input_kind": kind, "input_id": ident, "input_repr": xrepr, "order": order},
            fields={"leaf_clause": clause.rsplit(".", 2)[-2] + "." + clause.rsplit(".", 1)[-1] if clause.count(".") >= 2 else clause,
                    "root_shape": shape(e["T"]), "input_class": xclass},
            msg=f"[{order}] unmarshal({json.dumps(e['T'])[:160]}, {xrepr[:80]}) -> {json.dumps(e['out'])[:200]}"))
    return out


def run(ctx: Ctx) -> Outcome:
    profile = "quick" if ctx.quick else "full"
    events, meta, model, ntypes = collect(ctx, profile, 24 if ctx.quick else None)
    # passive source: every unmarshal() call of the repository's own test suite, its annotation projected onto the term
    # language and its classes described in a table carried by the event (harness/annterms.py)
    from .. import suite
    srec = suite.record().get("unmarshal", [])
    nsuite = nsuite_asserted = 0
    for m in srec:
        events.append(m["event"])
        meta.append(("suite", m["t"][:60], m["value"], "-", "suite"))
        nsuite += 1
        nsuite_asserted += 1 if m["asserted"] and m["event"]["out"]["k"] == "ok" else 0
    tres, rejects = tlc.validate_trace("Wire_Trace", "Wire_Trace.cfg", events, timeout=7200)
    viol = _violations(rejects, events, meta)
    returned = sum(1 for e in events if e["out"]["k"] == "ok")
    nontrivial = {(json.dumps(e["T"], sort_keys=True), m[2][:60]) for e, m in zip(events, meta) if e["out"]["k"] == "ok"}
    cov = {"states": model.distinct, "transitions": model.generated, "exhaustive": True,
           "traces_validated_against_impl": len(events), "evaluations": len(events),
           "distinct_nontrivial": len(nontrivial), "types": ntypes, "calls_returning": returned,
           "suite_unmarshal_calls": nsuite, "suite_unmarshal_calls_asserted": nsuite_asserted,
           "rule": "every type of the TLC-enumerated universe (spec/Terms.tla, profile %s), visited in order and, in forked processes "
                   "that had not called typelib, in reverse order and class-free types first, x (junk pool sample + every single-step "
                   "corruption of the wire form of two valid values); non-trivial = the call returned a value (which TLC then "
                   "checks with Conf), distinct by (type, input); plus every unmarshal() call the repository's own test suite makes, "
                   "with its own annotations projected onto the term language" % profile,
           "samples": [events[len(events) // 3], events[2 * len(events) // 3]]}
    return Outcome(level="model_checking", coverage=cov, violations=viol,
                   assumptions=["Conf (spec/Wire.tla) is the structural type checker; Literal membership uses Python ==",
                                "wire corruptions are computed by the harness from the real marshal output"])


def replay(ctx: Ctx, rep: dict) -> Outcome:
    import typelib
    c = rep["case"]
    defs, types, model = vs.universe("quick")
    env = vs.make_env(defs)
    rng = random.Random(ctx.seed)
    ann = env.annotation(c["T"])
    if c["input_kind"] == "junk":
        x = vs.junk_pool(env)[c["input_id"]]
    elif c["input_kind"] == "rawinst":
        x, _ = vs.raw_instance(c["T"], typelib.marshal(values(c["T"], env, rng, 2)[int(c["input_id"])], t=ann), env, defs)
    else:
        j, k = map(int, c["input_id"].split("."))
        x = vs.corruptions(typelib.marshal(values(c["T"], env, rng, 2)[j], t=ann), rng)[k]
    out, _ = vs.out_of(typelib.unmarshal, ann, x)
    print("  ", ann, repr(x)[:100], "->", out)
    ev = [{"ev": "unmarshal", "T": c["T"], "out": out}]
    _, rejects = tlc.validate_trace("Wire_Trace", "Wire_Trace.cfg", ev)
    return Outcome(level="model_checking", coverage={"evaluations": 1},
                   violations=_violations(rejects, ev, [(c["input_kind"], c["input_id"], repr(x)[:120], input_class(x), c.get("order", "forward"))]))
