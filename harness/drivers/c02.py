"""C02 -- JSON wire round trip and agreement of all entry points (spec/Codec.tla, Codec_Trace.tla)."""
from __future__ import annotations

import collections
import json
import random
import warnings

from .. import tlc, valuestream as vs
from ..core import Ctx, Outcome, Violation
from ..terms import clear_typelib_caches, project
from ..typeterms import values
from .c01 import type_ambiguous, union_sigs, composite_key
from .c03 import shape


def std_dumps(m):
    return json.dumps(m).encode()


def std_loads(b):
    return json.loads(b)


def tag_dumps(m):
    return b"T1:" + json.dumps(m, separators=(",", ":")).encode()


def tag_loads(b):
    if not bytes(b).startswith(b"T1:"):
        raise ValueError("untagged payload")
    return json.loads(bytes(b)[3:])


def str_keyed(T, defs, seen=()):
    k = T["k"]
    if k == "map":
        kt = T["ka"]
        while kt["k"] in ("newtype", "alias", "salias", "final"):
            kt = kt["a"]
        if not (kt["k"] == "prim" and kt["n"] == "str"):
            return False
        return str_keyed(T["va"], defs, seen)
    if k == "cls":
        if T["c"] in seen:
            return True
        return all(str_keyed(f[1], defs, seen + (T["c"],)) for f in defs[T["c"]]["fields"])
    if k in ("tup", "union"):
        return all(str_keyed(x, defs, seen) for x in T["xs"])
    if isinstance(T.get("a"), dict):
        return str_keyed(T["a"], defs, seen)
    return True


class KeyStr(str):
    """A str subclass: equal to, and hashing like, the plain text it holds."""
    __slots__ = ()


def widen_keys(T, v, depth=0):
    """v with the keys of its str-keyed mappings (at positions declared as mappings) replaced by equal instances of a str
    subclass; None if nothing could be widened.  The result is == v, so every law of C02 applies to it as it does to v."""
    hit = [False]

    def go(T, v, depth):
        k = T["k"]
        if depth > 6:
            return v
        while k in ("newtype", "alias", "salias", "final"):
            T = T["a"]; k = T["k"]
        if k == "map" and type(v) is dict:
            out = {}
            for a, b in v.items():
                if type(a) is str:
                    a = KeyStr(a); hit[0] = True
                out[a] = go(T["va"], b, depth + 1)
            return out
        if k == "coll" and type(v) in (list, tuple, collections.deque):
            return type(v)(go(T["a"], x, depth + 1) for x in v)
        if k == "tup" and type(v) is tuple and len(v) == len(T["xs"]):
            return tuple(go(t, x, depth + 1) for t, x in zip(T["xs"], v))
        if k == "union" and v is not None:
            nn = [m for m in T["xs"] if not (m["k"] == "prim" and m["n"] == "NoneType")]
            if len(nn) == 1:
                return go(nn[0], v, depth + 1)
        return v
    w = go(T, v, depth)
    return w if hit[0] else None


def json_safe(w):
    """ints within 64 bits, finite floats, valid Unicode: the domain of the default encoder."""
    if isinstance(w, bool) or w is None:
        return True
    if isinstance(w, int):
        return -2**63 <= w < 2**63
    if isinstance(w, float):
        return w == w and abs(w) != float("inf")
    if isinstance(w, str):
        try:
            w.encode("utf-8"); return True
        except UnicodeEncodeError:
            return False
    if isinstance(w, list):
        return all(json_safe(x) for x in w)
    if isinstance(w, dict):
        return all(isinstance(k, str) and json_safe(v) for k, v in w.items())
    return False


def collect(ctx: Ctx, profile: str):
    import typelib
    from typelib.py import compat
    rng = random.Random(ctx.seed)
    defs, types, model = vs.universe(profile)
    env = vs.make_env(defs)
    warnings.simplefilter("ignore")
    clear_typelib_caches()
    cfgs = [("default", None, None), ("stdjson", std_dumps, std_loads), ("tag", tag_dumps, tag_loads), ("default", None, None)]
    events, meta = [], []
    byteslike = [({"k": "prim", "n": "bytes"}, [b"", b"abc", b"\xff\x00{", b"\xef\xbb\xbfabc", b" [1, 2]\n", b"\xef\xbb\xbf"]),
                 ({"k": "prim", "n": "bytearray"}, [bytearray(b"ab"), bytearray(), bytearray(b"\xef\xbb\xbf{}")])]
    work = [(T, None) for T in types if str_keyed(T, defs) and not composite_key(T, defs)] + byteslike
    for T, fixed_vals in work:
        is_bytes = fixed_vals is not None
        ann = env.annotation(T)
        if union_sigs(T, defs):
            clear_typelib_caches()
        if not is_bytes and type_ambiguous(T, defs, env, rng):
            continue          # ambiguous unions do not round-trip by C01's own weak law
        vals = fixed_vals if is_bytes else values(T, env, rng, 2)
        if not is_bytes:
            # the same values with str-subclass keys in their mappings (== the plain value: same laws, same expected results)
            vals = [(v, v) for v in vals] + [(w, v) for v in vals for w in [widen_keys(T, v)] if w is not None]
        else:
            vals = [(v, v) for v in vals]
        for j, (v, plain) in enumerate(vals):
            try:
                m = typelib.marshal(v, t=ann)
            except Exception:
                continue
            if not is_bytes and not json_safe(m):
                continue
            vt = project(plain)
            if v is not plain:
                m = typelib.marshal(plain, t=ann)       # what the wire form must be: that of the equal plain value
            for cname, enc, dec in cfgs:
                kw = {} if enc is None else {"encoder": enc, "decoder": dec}
                e_enc = enc or compat.json.dumps
                e_dec = dec or compat.json.loads
                o1, b1 = vs.out_of(lambda: typelib.codec(ann, **kw).encode(v))
                o2, _ = vs.out_of(lambda: typelib.encode(v, t=ann, **({} if enc is None else {"encoder": enc})))
                o3, _ = vs.out_of(lambda: e_enc(typelib.marshal(v, t=ann)))
                expect, _ = vs.out_of(lambda: e_enc(m))
                ev = {"byteslike": is_bytes, "cfg": cname, "jsoncfg": cname != "tag", "enc": [o1, o2, o3], "expect": expect,
                      "verbatim": False, "parsed": {"k": "none", "cls": "NoneType"}, "marshalled": project(m),
                      "dec": [{"k": "raised", "e": "skipped"}] * 3, "v": vt}
                if b1 is not None:
                    ev["verbatim"] = (type(b1) is type(v) and b1 == v) if is_bytes else False
                    if cname != "tag" and not is_bytes:
                        try:
                            ev["parsed"] = project(json.loads(b1))
                        except Exception as e:
                            ev["parsed"] = {"k": "opaque", "cls": "unparseable:" + type(e).__name__}
                    d1, r1 = vs.out_of(lambda: typelib.codec(ann, **kw).decode(b1))
                    d2, _ = vs.out_of(lambda: typelib.decode(ann, b1, **({} if dec is None else {"decoder": dec})))
                    d3, _ = vs.out_of(lambda: typelib.unmarshal(ann, e_dec(b1)))
                    ev["dec"] = [d1, d2, d3]
                    if is_bytes and r1 is not None:
                        ev["verbatim"] = ev["verbatim"] and type(r1) is type(v) and r1 == v
                events.append(ev)
                meta.append({"T": T, "cfg": cname, "value": repr(v)[:80], "str_subclass_keys": v is not plain})
    return events, meta, model, len(work)


def run(ctx: Ctx) -> Outcome:
    profile = "quick" if ctx.quick else "full"
    res = tlc.must(tlc.run("Codec", "MC_Codec.cfg", workers=4), "Codec model")
    for bad in ("MC_Codec_pinned.cfg", "MC_Codec_m1.cfg"):
        r = tlc.run("Codec", bad, workers=2)
        if r.ok or "Agree" not in r.stdout:
            raise tlc.MachineryError(f"Codec model not sensitive: {bad} must violate Agree")
    events, meta, model, ntypes = collect(ctx, profile)
    slim = [{k: e[k] for k in ("byteslike", "jsoncfg", "enc", "expect", "verbatim", "parsed", "marshalled", "dec", "v")} for e in events]
    tres, rejects = tlc.validate_trace("Codec_Trace", "Codec_Trace.cfg", slim, timeout=7200)
    viol = []
    for r in rejects:
        e, m = events[r["rej"] - 1], meta[r["rej"] - 1]
        viol.append(Violation(clause=r["clause"], case=m,
                              fields={"cfg": m["cfg"], "byteslike": e["byteslike"], "root_shape": shape(m["T"]),
                                      "raised": next((o.get("e") for o in e["enc"] + e["dec"] if o["k"] == "raised" and o.get("e") != "skipped"), "")},
                              msg=f"{json.dumps(m)[:160]} enc={json.dumps(e['enc'])[:200]} dec={json.dumps(e['dec'])[:200]}"))
    nontrivial = {(json.dumps(m["T"], sort_keys=True), m["value"], m["cfg"]) for e, m in zip(events, meta) if e["enc"][0]["k"] == "ok"}
    cov = {"states": res.distinct + model.distinct, "transitions": res.generated + model.generated, "exhaustive": True,
           "traces_validated_against_impl": len(events), "evaluations": len(events), "distinct_nontrivial": len(nontrivial),
           "types": ntypes,
           "rule": "model: every history of <=4 uses over {JSON-carried, bytes-like} x 3 encoder configurations with the codec() memo as "
                   "state; real: every str-keyed, non-ambiguous type of the TLC universe (plus bytes and bytearray) x pool values within "
                   "the default encoder's domain, each under default -> stdlib json -> a tagging codec -> default again without clearing "
                   "caches: Codec method, top-level function and explicit composition must agree, the bytes must be exactly "
                   "encoder(marshal(v)), parse with the standard json module to marshal(v), and decode back to v; distinct by (type, value, cfg)",
           "samples": [dict(meta[len(meta) // 2], event=slim[len(slim) // 2])]}
    return Outcome(level="model_checking", coverage=cov, violations=viol,
                   assumptions=["types whose unions are ambiguous (C01's weak-law domain) are skipped; bytes-like T: composition is not asserted"])


def replay(ctx: Ctx, rep: dict) -> Outcome:
    events, meta, _, _ = collect(Ctx(pid="C02", tier="quick", seed=ctx.seed), "quick")
    c = rep["case"]
    sel = [(e, m) for e, m in zip(events, meta) if json.dumps(m["T"], sort_keys=True) == json.dumps(c["T"], sort_keys=True)]
    for e, m in sel:
        print("  ", m["cfg"], m["value"], json.dumps(e["enc"])[:200])
    slim = [{k: e[k] for k in ("byteslike", "jsoncfg", "enc", "expect", "verbatim", "parsed", "marshalled", "dec", "v")} for e, _ in sel]
    if not slim:
        return Outcome(level="model_checking", coverage={"evaluations": 0}, violations=[])
    _, rejects = tlc.validate_trace("Codec_Trace", "Codec_Trace.cfg", slim)
    return Outcome(level="model_checking", coverage={"evaluations": len(slim)},
                   violations=[Violation(clause=r["clause"], case=sel[r["rej"] - 1][1], fields={}, msg="") for r in rejects])
