"""C11 -- aliases, NewTypes, qualifiers and string references are transparent (Member_Trace.tla "pair")."""
from __future__ import annotations

import copy
import itertools
import json
import random
import typing
import warnings

from .. import tlc, valuestream as vs
from ..core import Ctx, Outcome, Violation
from ..terms import clear_typelib_caches, project
from ..typeterms import Env, values

P = lambda n: {"k": "prim", "n": n}          # noqa: E731
NONE = P("NoneType")
LIST = lambda a: {"k": "coll", "c": "list", "sp": "builtin", "a": a}          # noqa: E731
OPT = lambda a: {"k": "union", "sp": "Optional", "xs": [a, NONE]}             # noqa: E731

BASES = {
    "int": P("int"), "date": P("date"), "Decimal": P("Decimal"), "list[int]": LIST(P("int")),
    "dict[str,date]": {"k": "map", "c": "dict", "sp": "builtin", "ka": P("str"), "va": P("date")},
    "D1": {"k": "cls", "c": "D1"}, "R1": {"k": "cls", "c": "R1"}, "Tag": {"k": "enum", "e": "Tag"},
    "dt.date": {"k": "srcname", "src": "dt.date", "as": P("date")},
    "tuple[int,str]": {"k": "tup", "xs": [P("int"), P("str")]},
}
BASE_DEFS = {
    "D1": {"flavour": "dataclass", "module": "m1", "py": "D1", "fields": [["a", P("int"), False], ["b", P("date"), False]]},
    "R1": {"flavour": "dataclass", "module": "m1", "py": "R1", "fields": [["v", P("int"), False], ["nxt", OPT({"k": "cls", "c": "R1"}), True]]},
}
WRAPPERS = ["newtype", "alias", "salias"]


def chains(quick):
    out = [(w,) for w in WRAPPERS] + [("final",), ("classvar",)]
    out += list(itertools.product(WRAPPERS, repeat=2))
    out += [("final", w) for w in WRAPPERS] + [("final", "newtype", "alias"), ("classvar", "alias")]
    # Annotated[X, ..]: metadata on X, legal at every position, under and over the named wrappers
    out += [("annotated",), ("annotated", "newtype"), ("newtype", "annotated"), ("alias", "annotated"), ("final", "annotated")]
    if not quick:
        out += list(itertools.product(WRAPPERS, repeat=3))
    else:
        out += [("newtype", "alias", "salias"), ("salias", "newtype", "newtype"), ("alias", "alias", "newtype")]
    return out


def wrap(chain, T):
    for w in reversed(chain):
        T = {"k": w, "a": T}
    return T


def positions(chain, base):
    """(position name, wrapped type term, plain type term); Final only at root / on fields, ClassVar only at root."""
    W, T = wrap(chain, base), base
    inner = tuple(w for w in chain if w not in ("final", "classvar"))
    Wn = wrap(inner, base)
    out = [("root", W, T)]
    if chain[0] not in ("final", "classvar"):
        out += [("list_arg", LIST(W), LIST(T)),
                ("map_value", {"k": "map", "c": "dict", "sp": "builtin", "ka": P("str"), "va": W},
                 {"k": "map", "c": "dict", "sp": "builtin", "ka": P("str"), "va": T}),
                ("tuple_member", {"k": "tup", "xs": [P("int"), W]}, {"k": "tup", "xs": [P("int"), T]}),
                ("union_member", OPT(W), OPT(T))]
    if chain[0] != "classvar":
        out.append(("class_field", {"k": "cls", "c": "FW"}, {"k": "cls", "c": "FP"}))
        # the wrapped member follows a plain member of the same type: reached a second time in one graph
        out.append(("class_field_after_plain", {"k": "cls", "c": "GW"}, {"k": "cls", "c": "GP"}))
        # the same, with the holder class and the wrapper declared in another module than the wrapped type
        out.append(("class_field_cross_module", {"k": "cls", "c": "HW"}, {"k": "cls", "c": "HP"}))
        # a class in another module derived from the holder: the inherited member's annotation is a text written in the holder's
        # module (where the wrapper is defined), it means what it means there
        out.append(("inherited_cross_module", {"k": "cls", "c": "IW"}, {"k": "cls", "c": "IP"}))
    if chain[0] not in ("final", "classvar"):
        out.append(("tuple_plain_then_wrapped", {"k": "tup", "xs": [T, LIST(W), W]}, {"k": "tup", "xs": [T, LIST(T), T]}))
    if inner and base.get("k") == "cls" and base.get("c") == "R1":
        out.append(("recursive_field", {"k": "cls", "c": "RW"}, {"k": "cls", "c": "RP"}))
    return out


def case_defs(chain, base):
    W = wrap(chain, base)
    inner = tuple(w for w in chain if w not in ("final", "classvar"))
    defs = copy.deepcopy(BASE_DEFS)
    if chain[0] != "classvar":
        defs["FW"] = {"flavour": "dataclass", "module": "m1", "py": "FW", "fields": [["n", P("int"), False], ["x", W, False]]}
        defs["FP"] = {"flavour": "dataclass", "module": "m1", "py": "FP", "fields": [["n", P("int"), False], ["x", base, False]]}
        defs["GW"] = {"flavour": "dataclass", "module": "m1", "py": "GW", "fields": [["a", base, False], ["x", W, False]]}
        defs["GP"] = {"flavour": "dataclass", "module": "m1", "py": "GP", "fields": [["a", base, False], ["x", base, False]]}
        sub_a = {"flavour": "dataclass", "module": "m2", "py": "SubA", "fields": [["p", base, False]]}
        defs["SubA"] = sub_a
        defs["SubW"] = {"flavour": "dataclass", "module": "m2", "py": "SubW", "fields": [["q", W, False]]}
        defs["SubP"] = {"flavour": "dataclass", "module": "m2", "py": "SubP", "fields": [["q", base, False]]}
        defs["HW"] = {"flavour": "dataclass", "module": "m2", "py": "HW", "fields": [["a", {"k": "cls", "c": "SubA"}, False], ["b", {"k": "cls", "c": "SubW"}, False]]}
        defs["HP"] = {"flavour": "dataclass", "module": "m2", "py": "HP", "fields": [["a", {"k": "cls", "c": "SubA"}, False], ["b", {"k": "cls", "c": "SubP"}, False]]}
        defs["IW"] = {"flavour": "dataclass", "module": "m2", "py": "IW", "base": "FW",
                      "fields": [["n", P("int"), False], ["x", W, False], ["more", OPT(P("date")), True]]}
        defs["IP"] = {"flavour": "dataclass", "module": "m2", "py": "IP", "base": "FP",
                      "fields": [["n", P("int"), False], ["x", base, False], ["more", OPT(P("date")), True]]}
    if inner:
        defs["RW"] = {"flavour": "dataclass", "module": "m1", "py": "RW",
                      "fields": [["v", P("int"), False], ["nxt", OPT(wrap(inner, {"k": "cls", "c": "RW"})), True]]}
        defs["RP"] = {"flavour": "dataclass", "module": "m1", "py": "RP",
                      "fields": [["v", P("int"), False], ["nxt", OPT({"k": "cls", "c": "RP"}), True]]}
    return defs


CALLERS = '''
import typelib, dataclasses
@dataclasses.dataclass
class Zed:
    zz: int
def _call(fn, ref, x, depth):
    if depth:
        return _call(fn, ref, x, depth - 1)
    return fn(ref, x)
def um(ref, x, depth=0):
    return _call(typelib.unmarshal, ref, x, depth)
def ma(ref, x, depth=0):
    return _call(lambda r, v: typelib.marshal(v, t=r), ref, x, depth)
'''


def norm(out):
    """Twin classes FW/FP and RW/RP are the same class up to their name."""
    s = json.dumps(out)
    for a, b in (("m1.FW", "m1.F"), ("m1.FP", "m1.F"), ("m1.RW", "m1.R"), ("m1.RP", "m1.R"), ("m1.GW", "m1.G"), ("m1.GP", "m1.G"),
                 ("m2.HW", "m2.H"), ("m2.HP", "m2.H"), ("m2.SubW", "m2.Sub"), ("m2.SubP", "m2.Sub"), ("m2.IW", "m2.I"), ("m2.IP", "m2.I")):
        s = s.replace(a, b)
    return json.loads(s)


def inputs_for(T, env, rng):
    import typelib
    outs = []
    ann = env.annotation(T)
    for v in values(T, env, rng, 3):
        outs.append(("value", v))
        try:
            w = typelib.marshal(v, t=ann)
            outs.append(("wire", w))
            outs.append(("json", json.dumps(w)))
            # class positions as instances of exactly those classes whose members still hold wire values
            ri, replaced = vs.raw_instance(T, w, env, env.defs)
            if replaced:
                outs.append(("rawinst", ri))
            if isinstance(w, list) and w:
                # a one-shot source whose middle element no member routine takes (made anew for every call)
                outs.append(("gen_bad_middle", (lambda w=w: (e for e in [*w, object(), *w]))))
        except Exception:
            pass
    outs += [("junk", j) for j in (None, "abc", 12, [1, "x"], {"a": "1", "b": "2020-01-01", "n": "3", "x": "5", "v": "1"}, "[1]")]
    return outs


def refs_model(ctx: Ctx):
    """spec/Refs.tla: what a string reference denotes.  The model is checked (the pinned resolution rule must fail), every
    (text, explicit module, call stack) case it emits is issued to the real refs.forwardref / refs.evaluate from generated
    modules, and the trace spec judges the outcomes by the reference layer (and reports drift from the transcription)."""
    from .. import refsworld as rw
    model = tlc.must(tlc.run("Refs", "MC_Refs.cfg", workers=4), "Refs model")
    pinned = tlc.run("Refs", "MC_Refs_pinned.cfg", workers=2)
    if pinned.ok or "Transparent" not in pinned.stdout:
        raise tlc.MachineryError("Refs model not sensitive: the first-dot rule must violate Transparent")
    em = tlc.must(tlc.run("Refs", cfg_text=open(tlc.SPEC_DIR + "/MC_Refs.cfg").read().replace("Emit = FALSE", "Emit = TRUE"), workers=1),
                  "Refs emit")
    cases = [p for p in em.printed if isinstance(p, dict) and "call" in p]
    if len(cases) * 2 != em.distinct:
        raise tlc.MachineryError(f"Refs emit: {len(cases)} cases for {em.distinct} states")
    mods = rw.build()
    events, texts = [], []
    try:
        for pss in (cases, cases[::-1]):            # a second pass in reverse order: the name memo of the library is warm
            for k, cse in enumerate(pss):
                if pss is cases:
                    clear_typelib_caches()
                got, text = rw.observe(cse["call"], mods)
                events.append({"call": cse["call"], "got": got})
                texts.append((text, "cold" if pss is cases else "warm"))
    finally:
        rw.dispose()
    # the warm pass meets the ==-keyed name memo (a bare name resolved for one caller answers for the next: KF-C12-02, C12's
    # subject): only cold outcomes are judged here, warm ones are kept as drift information
    ncold = len(cases)
    tres, rejects = tlc.validate_trace("Refs_Trace", "Refs_Trace.cfg", events[:ncold], timeout=3600)
    viol = []
    for r in rejects:
        e = events[r["rej"] - 1]
        viol.append(Violation(clause=r["clause"], case={"refs": True, "call": e["call"], "text": texts[r["rej"] - 1][0]},
                              fields={"text_kind": e["call"]["t"]["k"], "explicit": e["call"]["explicit"] != "-", "frames": len(e["call"]["stack"]),
                                      "got": e["got"]["k"]},
                              msg=f"{texts[r['rej'] - 1][0]!r} explicit={e['call']['explicit']} stack={e['call']['stack']}: got {e['got']} want {r['want']}"))
    drift = [{"text": texts[p["drift"] - 1][0], "call": events[p["drift"] - 1]["call"], "got": events[p["drift"] - 1]["got"], "model": p["model"]}
             for p in tres.printed if isinstance(p, dict) and "drift" in p][:20]
    warm_moved = sum(1 for a, b in zip(events[:ncold], events[ncold:][::-1]) if a["got"] != b["got"])
    asserted = sum(1 for cse in cases if cse["ref"]["k"] == "obj")
    cov = {"refs_model_states": model.distinct, "refs_cases": ncold, "refs_cases_asserted": asserted,
           "refs_cases_drifting_from_transcription": len([p for p in tres.printed if isinstance(p, dict) and "drift" in p]),
           "refs_outcomes_moved_by_warm_memo": warm_moved}
    return viol, cov, drift, model


def collect(ctx: Ctx, quick: bool):
    import typelib
    rng = random.Random(ctx.seed)
    warnings.simplefilter("ignore")
    clear_typelib_caches()
    events, meta = [], []
    allchains = chains(quick)
    ncase = [0]
    bases = list(BASES.items())
    for (bname, base), chain in itertools.product(bases, allchains):
        if quick and len(chain) >= 2 and rng.random() < 0.5:
            continue
        env = Env(case_defs(chain, base), tag="w")
        ncase[0] += 1
        if ncase[0] % 3 == 0:
            # the user's modules live in a directory whose name contains the library's name (typelib_adapters/, my-typelib-app/)
            env.filedir = "/verif-generated/typelib_adapters"
        env.build(None, "m1")
        m1 = env.modules["m1"]
        exec(compile(CALLERS, env.filename("m1"), "exec", dont_inherit=True), m1.__dict__)
        other = env.modules.get("m2")
        if other is not None:
            exec(compile(CALLERS, env.filename("m2"), "exec", dont_inherit=True), other.__dict__)
            other.__dict__["wt"] = m1            # `import <m1> as wt` in the other module
        for pos, Wt, Tt in positions(chain, base):
            try:
                annW, annT = env.annotation(Wt), env.annotation(Tt)
            except Exception as e:
                raise tlc.MachineryError(f"cannot materialise {pos} {chain} {bname}: {e!r}")
            # reference origins for the wrapped annotation
            m1.__dict__["REFNAME"] = annW
            origins = [("object", lambda fn, x: fn(annW, x))]
            if pos == "root" or chain[0] not in ("final", "classvar"):
                origins += [("string_in_module", lambda fn, x: fn("REFNAME", x, 0)),
                            ("string_nested_call", lambda fn, x: fn("REFNAME", x, 3)),
                            ("forwardref", lambda fn, x: fn(typing.ForwardRef("REFNAME", module=m1.__name__, is_class=True), x)),
                            ("string_qualified", lambda fn, x: fn(f"{m1.__name__}.REFNAME", x))]
                if pos == "root" and chain[0] not in ("final", "classvar"):
                    # a ForwardRef object naming the wrapper, used as a collection argument: list[ForwardRef("W", module=m)]
                    # (by the wrapper's own name: a reference through a second binding of the object is another matter)
                    wname = getattr(annW, "__name__", None)
                    if wname and getattr(m1, wname, None) is annW:
                        origins.append(("forwardref_in_list",
                                        lambda fn, x, wname=wname: (
                                            typelib.marshal([x], t=list[typing.ForwardRef(wname, module=m1.__name__, is_class=True)])
                                            if fn is m1.ma else
                                            typelib.unmarshal(list[typing.ForwardRef(wname, module=m1.__name__, is_class=True)], [x]))))
                    # a string that names the module twice: "m.W | m.Zed", against Union[T, Zed]
                    origins.append(("string_qualified_union", lambda fn, x: fn(f"{m1.__name__}.REFNAME | {m1.__name__}.Zed", x)))
                    if other is not None:
                        # a name dotted through an import alias of the issuing module ("wt.W" after `import m1 as wt`)
                        origins.append(("string_via_import_alias",
                                        lambda fn, x: (other.ma if fn is m1.ma else other.um)("wt.REFNAME", x)))
                        # a qualified name inside brackets, issued from another module that imports the defining one
                        origins.append(("string_list_of_qualified",
                                        lambda fn, x: (other.ma if fn is m1.ma else other.um)(f"list[{m1.__name__}.REFNAME]", [x])))
            ins = inputs_for(Tt, env, rng)
            for oname, call in origins:
                if quick and oname != "object" and pos not in ("root", "class_field") and rng.random() < 0.6:
                    continue
                for kind, x0 in ins:
                    lazy = kind.startswith("gen_")
                    x = x0() if lazy else x0
                    if oname.startswith("string") or oname.startswith("forwardref"):
                        clear_typelib_caches()       # REFNAME is rebound per position; references are memoised by name
                    plainT = typing.Union[annT, m1.Zed] if oname == "string_qualified_union" else annT
                    inlist = oname in ("forwardref_in_list", "string_list_of_qualified")
                    if kind == "value":
                        a, _ = vs.out_of(call, m1.ma, x) if oname != "object" else vs.out_of(typelib.marshal, x, t=annW)
                        b, _ = vs.out_of(typelib.marshal, [x], t=list[annT]) if inlist else vs.out_of(typelib.marshal, x, t=plainT)
                        op = "marshal"
                    else:
                        a, _ = vs.out_of(call, m1.um, x) if oname != "object" else vs.out_of(typelib.unmarshal, annW, x)
                        xb = x0() if lazy else x
                        b, _ = vs.out_of(typelib.unmarshal, list[annT], [xb]) if inlist else vs.out_of(typelib.unmarshal, plainT, xb)
                        op = "unmarshal"
                    events.append({"ev": "pair", "a": norm(a), "b": norm(b)})
                    meta.append({"base": bname, "chain": list(chain), "pos": pos, "origin": oname, "op": op, "input": repr(x)[:80]})
            # codec equivalence at this position (encode of a valid value, decode of its bytes)
            for v in values(Tt, env, rng, 2):
                a, ab = vs.out_of(lambda: typelib.codec(annW).encode(v))
                b, bb = vs.out_of(lambda: typelib.codec(annT).encode(v))
                events.append({"ev": "pair", "a": norm(a), "b": norm(b)})
                meta.append({"base": bname, "chain": list(chain), "pos": pos, "origin": "object", "op": "encode", "input": repr(v)[:80]})
                if bb is not None:
                    a, _ = vs.out_of(lambda: typelib.codec(annW).decode(bb))
                    b, _ = vs.out_of(lambda: typelib.codec(annT).decode(bb))
                    events.append({"ev": "pair", "a": norm(a), "b": norm(b)})
                    meta.append({"base": bname, "chain": list(chain), "pos": pos, "origin": "object", "op": "decode", "input": repr(bb)[:80]})
        env.dispose()
    return events, meta


def run(ctx: Ctx) -> Outcome:
    defs, types, model = vs.universe("quick")
    events, meta = collect(ctx, ctx.quick)
    tres, rejects = tlc.validate_trace("Member_Trace", "Member_Trace.cfg", events, timeout=7200)
    viol = []
    for r in rejects:
        e, m = events[r["rej"] - 1], meta[r["rej"] - 1]
        viol.append(Violation(clause=r["clause"], case=m,
                              fields={"pos": m["pos"], "origin": m["origin"], "op": m["op"], "outer": m["chain"][0], "base": m["base"],
                                      "wrapped_raised": e["a"].get("e", ""), "plain_raised": e["b"].get("e", "")},
                              msg=f"{json.dumps(m)} wrapped={json.dumps(e['a'])[:160]} plain={json.dumps(e['b'])[:160]}"))
    rviol, rcov, rdrift, rmodel = refs_model(ctx)
    viol += rviol
    nontrivial = {(m["base"], tuple(m["chain"]), m["pos"], m["origin"], m["op"], m["input"]) for e, m in zip(events, meta) if e["b"]["k"] == "ok"}
    cov = {"states": model.distinct + rmodel.distinct, "transitions": model.generated + rmodel.generated, **rcov,
           "traces_validated_against_impl": len(events) + rcov["refs_cases"], "evaluations": len(events) + rcov["refs_cases"],
           "distinct_nontrivial": len(nontrivial),
           "rule": "wrapper chains of length <=3 over NewType / TypeAliasType(value) / TypeAliasType('string') with Final and ClassVar where "
                   "Python permits x 10 base types (scalars, containers, a dataclass, a recursive dataclass, an enum, a dotted source spelling) "
                   "x positions (root, list argument, mapping value, tuple member, union member, class field, recursive back-edge) x reference "
                   "origins (object, string in the defining module, string from 3 nested calls, ForwardRef(module=), module-qualified string, a "
                   "string naming the module twice) x "
                   "inputs (valid values, wire forms, JSON text, junk) for marshal/unmarshal/encode/decode; non-trivial = the plain type accepts; "
                   "string references: spec/Refs.tla (what a text denotes: Python's reading in the namespace it was written in vs the "
                   "transcribed module resolution; the first-dot rule of the pinned snapshot must fail) checked for 42 structured texts "
                   "(dotted paths, list[path], typing.Optional[path], path | path; module-qualified, class-qualified, through an imported "
                   "module, unbound) x explicit module x 4 call stacks, every case issued to the real refs.forwardref / refs.evaluate from "
                   "generated modules and judged by Refs_Trace.tla",
           "samples": [dict(meta[len(meta) // 3], event=events[len(events) // 3])]}
    return Outcome(level="model_checking", coverage=cov, violations=viol, impl_drift=rdrift,
                   assumptions=["twin classes (field typed W(T) vs T) are compared up to the class name",
                                "Refs.tla fixes one world of three modules; a user object that shadows the name of a loaded module is outside it",
                                "string references are re-bound per position and typelib's memos are cleared before each referenced call"])


def replay(ctx: Ctx, rep: dict) -> Outcome:
    if rep["case"].get("refs"):
        from .. import refsworld as rw
        mods = rw.build()
        try:
            clear_typelib_caches()
            got, text = rw.observe(rep["case"]["call"], mods)
        finally:
            rw.dispose()
        print("  ", text, "->", got)
        _, rejects = tlc.validate_trace("Refs_Trace", "Refs_Trace.cfg", [{"call": rep["case"]["call"], "got": got}])
        return Outcome(level="model_checking", coverage={"evaluations": 1},
                       violations=[Violation(clause=r["clause"], case=rep["case"], fields={}, msg=f"{text}: {got}") for r in rejects])
    events, meta = collect(Ctx(pid="C11", tier="quick", seed=ctx.seed), True)
    c = rep["case"]
    sel = [(e, m) for e, m in zip(events, meta) if all(m[k] == c[k] for k in ("base", "chain", "pos", "origin", "op"))]
    for e, m in sel:
        print("  ", m["input"], "wrapped:", json.dumps(e["a"])[:120], "plain:", json.dumps(e["b"])[:120])
    ev = [e for e, _ in sel]
    if not ev:
        return Outcome(level="model_checking", coverage={"evaluations": 0}, violations=[])
    _, rejects = tlc.validate_trace("Member_Trace", "Member_Trace.cfg", ev)
    viol = [Violation(clause=r["clause"], case=sel[r["rej"] - 1][1], fields={}, msg="") for r in rejects]
    return Outcome(level="model_checking", coverage={"evaluations": len(ev)}, violations=viol)
