"""C05 -- nested members are converted by their own type's rules (spec/Member_Trace.tla "memberwise")."""
from __future__ import annotations

import collections
import dataclasses
import json
import random
import types as pytypes
import warnings

from .. import tlc, valuestream as vs
from .c02 import json_safe
from ..core import Ctx, Outcome, Violation
from ..terms import clear_typelib_caches, project
from ..typeterms import CONCRETE, values
from .c01 import union_sigs
from .c03 import shape

WRAP = ("newtype", "alias", "salias", "final", "classvar", "noinit", "annotated")


def strip(T):
    while T["k"] in WRAP:
        T = T["a"]
    return T


def decompose_unmarshal(T, x, defs, env):
    """(member type terms, member inputs, rebuild) for a composite T and a structured input x; None if x has no such shape."""
    T = strip(T)
    k = T["k"]
    if k == "coll":
        if isinstance(x, dict) or not hasattr(x, "__iter__") or isinstance(x, (str, bytes)):
            return None
        xs = list(x)
        ctor = CONCRETE[T["c"]]
        return [T["a"]] * len(xs), xs, lambda rs: ctor(rs)
    if k == "tup":
        if isinstance(x, dict) or not isinstance(x, (list, tuple)) or len(x) != len(T["xs"]):
            return None
        return list(T["xs"]), list(x), lambda rs: tuple(rs)
    if k == "map":
        if isinstance(x, dict):
            items = list(x.items())
        elif isinstance(x, list) and all(isinstance(p, (list, tuple)) and len(p) == 2 for p in x) and x:
            items = [tuple(p) for p in x]
        else:
            return None
        ms, ins = [], []
        for a, b in items:
            ms += [T["ka"], T["va"]]; ins += [a, b]
        return ms, ins, lambda rs: {rs[i]: rs[i + 1] for i in range(0, len(rs), 2)}
    if k == "cls":
        d = defs[T["c"]]
        # class-level names are not members; a field declared with init=False is no constructor parameter
        ftypes = {f[0]: f[1] for f in d["fields"] if f[1]["k"] not in ("classvar", "noinit")}
        if isinstance(x, dict):
            items = [(a, b) for a, b in x.items() if a in ftypes]
        elif isinstance(x, list) and x and all(isinstance(p, (list, tuple)) and len(p) == 2 for p in x):
            items = [(p[0], p[1]) for p in x if p[0] in ftypes]
        elif hasattr(x, "_asdict"):
            items = [(a, b) for a, b in x._asdict().items() if a in ftypes]
        elif dataclasses.is_dataclass(x) and not isinstance(x, type):
            items = [(f.name, getattr(x, f.name)) for f in dataclasses.fields(x) if f.name in ftypes]
        elif hasattr(x, "__dict__") and not isinstance(x, type):
            items = [(a, b) for a, b in vars(x).items() if a in ftypes]
        else:
            return None
        C = env.obj(T["c"])
        names = [a for a, _ in items]

        def rebuild(rs):
            kw = dict(zip(names, rs))
            return dict(kw) if d["flavour"].startswith("typeddict") else C(**kw)
        return [ftypes[a] for a in names], [b for _, b in items], rebuild
    return None


def deep_rebuild(T, x, defs, env, depth=0):
    """The composite rebuilt from the *leaves* up: every composite level -- at every depth -- is taken apart by the harness,
    only members that are not composite (scalars, enums, literals, proper unions) go through a routine of the library.
    Raises whatever a leaf routine raises."""
    import typelib
    if depth < 12:
        t = strip(T)
        if t["k"] == "union":
            nn = [m for m in t["xs"] if not (m["k"] == "prim" and m["n"] == "NoneType")]
            if len(nn) == 1 and len(t["xs"]) == 2:                  # Optional[X]: None stays None, anything else is an X
                return None if x is None else deep_rebuild(nn[0], x, defs, env, depth + 1)
        else:
            du = decompose_unmarshal(T, x, defs, env)
            if du is not None:
                ms, ins, rebuild = du
                return rebuild([deep_rebuild(m, i, defs, env, depth + 1) for m, i in zip(ms, ins)])
    return typelib.unmarshal(env.annotation(T), x)


def decompose_marshal(T, v, defs, env):
    T = strip(T)
    k = T["k"]
    if k == "coll":
        xs = list(v)
        return [T["a"]] * len(xs), xs, lambda rs: list(rs)
    if k == "tup":
        return list(T["xs"]), list(v), lambda rs: list(rs)
    if k == "map":
        ms, ins = [], []
        for a, b in v.items():
            ms += [T["ka"], T["va"]]; ins += [a, b]
        return ms, ins, lambda rs: {rs[i]: rs[i + 1] for i in range(0, len(rs), 2)}
    if k == "cls":
        d = defs[T["c"]]
        names = [f[0] for f in d["fields"] if f[1]["k"] != "classvar"]
        if isinstance(v, dict):
            names = [n for n in names if n in v]
            ins = [v[n] for n in names]
        else:
            ins = [getattr(v, n) for n in names]
        return [f[1] for f in d["fields"] if f[0] in names], ins, lambda rs: dict(zip(names, rs))
    return None


def source_shapes(w, rng):
    """The documented shapes of one structured source value."""
    out = [("wire", w)]
    try:
        js = json.dumps(w)
        # JSON text stands for the wire value only if it reads back as it (str keys) -- with every JSON decoder: integers
        # beyond 64 bits are outside the default decoder's domain (C02's quantifier says so)
        if json.loads(js) == w and json_safe(w):
            out.append(("json", js))
            out.append(("jsonbytes", js.encode()))
    except (TypeError, ValueError):
        pass
    out.append(("repr", repr(w)))
    if isinstance(w, dict) and w:
        pairs = [[a, b] for a, b in w.items()]
        out.append(("pairs", pairs))
        # one-shot sources of the same pairs: a generator, and iterators that are not generators
        out.append(("pairs_generator", ("lazy", pairs, lambda: (p for p in pairs))))
        out.append(("pairs_zip", ("lazy", pairs, lambda: zip(list(w.keys()), list(w.values())))))
        out.append(("pairs_iter", ("lazy", pairs, lambda: iter([tuple(p) for p in pairs]))))
        out.append(("pairs_map", ("lazy", pairs, lambda: map(tuple, pairs))))
        out.append(("items_view", ("lazy", pairs, lambda: dict(w).items())))
        if all(isinstance(a, str) and a.isidentifier() for a in w):
            out.append(("object", pytypes.SimpleNamespace(**w, unrelated_extra=1)))
    if isinstance(w, list):
        out.append(("tuple", tuple(w)))
        out.append(("generator", ("lazy", w, lambda: (e for e in w))))
        out.append(("iter", ("lazy", w, lambda: iter(list(w)))))
        out.append(("map", ("lazy", w, lambda: map(lambda e: e, w))))
    return out


def collect(ctx: Ctx, profile: str):
    import typelib
    rng = random.Random(ctx.seed)
    defs, types, model = vs.universe(profile)
    env = vs.make_env(defs)
    warnings.simplefilter("ignore")
    clear_typelib_caches()
    events, meta = [], []
    composites = [T for T in types if strip(T)["k"] in ("coll", "map", "tup", "cls")]
    # both class orders: the routine for a class may be built first as a member or first as a root
    for pas, order in ((1, composites), (2, composites[::-1])):
        for T in order:
            if pas == 2 and strip(T)["k"] != "cls" and not any(c in json.dumps(T) for c in ('"cls"',)):
                continue
            ann = env.annotation(T)
            if union_sigs(T, defs):
                clear_typelib_caches()
            for j, v in enumerate(values(T, env, rng, 2)):
                # ---- marshal side
                dm = decompose_marshal(T, v, defs, env)
                whole, wv = vs.out_of(typelib.marshal, v, t=ann)
                if dm:
                    ms, ins, rebuild = dm
                    parts = [vs.out_of(typelib.marshal, i, t=env.annotation(m)) for m, i in zip(ms, ins)]
                    rebuilt = {"k": "raised", "e": "part"}
                    if all(p[0]["k"] == "ok" for p in parts):
                        rebuilt, _ = vs.out_of(rebuild, [p[1] for p in parts])
                    events.append({"ev": "memberwise", "T": T, "whole": whole, "parts": [p[0] for p in parts] or [{"k": "ok", "r": {"k": "none", "cls": "NoneType"}}],
                                   "rebuilt": rebuilt, "classpar": False})
                    meta.append(("marshal", "value", j, pas, repr(v)[:80]))
                if whole["k"] != "ok":
                    continue
                # ---- unmarshal side, every documented source shape of the wire value
                shapes = source_shapes(wv, rng)
                ri, replaced = vs.raw_instance(T, wv, env, defs)
                if replaced:
                    # class positions as instances of exactly those classes, members still raw
                    shapes.append(("same_class_instance", ri))
                st = strip(T)
                if j == 0 and st["k"] == "coll" and st["c"] in ("set", "frozenset") and strip(st["a"])["k"] == "prim" \
                        and strip(st["a"])["n"] in ("str", "bytes", "int", "float", "Decimal"):
                    # raw members that are equal but of different classes: each is converted on its own before the set is built
                    shapes.append(("equal_raw_members", [1, True, 1.0, "1", 0, False, 0.0, "0"]))
                if j == 0:
                    # exactly one member is replaced by bytes that are no UTF-8 text (a UnicodeDecodeError for text-reading members)
                    if isinstance(wv, list) and wv:
                        shapes.append(("bad_member", [b"\xff\xfe"] + list(wv[1:])))
                    elif isinstance(wv, dict) and wv:
                        k0 = next(iter(wv))
                        shapes.append(("bad_member", {**wv, k0: b"\xff\xfe"}))
                for sname, x in shapes:
                    gen = isinstance(x, tuple) and len(x) == 3 and x[0] == "lazy"
                    xin = x[2]() if gen else x
                    whole_u, _ = vs.out_of(typelib.unmarshal, ann, xin)
                    base = wv if sname in ("json", "jsonbytes", "repr") else (x[1] if gen else x)
                    du = decompose_unmarshal(T, base, defs, env)
                    if not du:
                        continue
                    ms, ins, rebuild = du
                    parts = [vs.out_of(typelib.unmarshal, env.annotation(m), i) for m, i in zip(ms, ins)]
                    rebuilt = {"k": "raised", "e": "part"}
                    if all(p[0]["k"] == "ok" for p in parts):
                        rebuilt, _ = vs.out_of(rebuild, [p[1] for p in parts])
                    events.append({"ev": "memberwise", "T": T, "whole": whole_u, "parts": [p[0] for p in parts] or [{"k": "ok", "r": {"k": "none", "cls": "NoneType"}}],
                                   "rebuilt": rebuilt, "classpar": False})
                    if sname == "bad_member":
                        events[-1]["classpar"] = sum(1 for p in parts if p[0]["k"] == "raised") == 1
                    meta.append(("unmarshal", sname, j, pas, repr(x)[:80]))
                    if sname == "wire" and whole_u["k"] == "ok":
                        # the same, rebuilt from the leaves up (every nesting level taken apart by the harness)
                        deep, _ = vs.out_of(deep_rebuild, T, wv, defs, env)
                        events.append({"ev": "memberwise", "T": T, "whole": whole_u, "parts": [{"k": "ok", "r": {"k": "none", "cls": "NoneType"}}],
                                       "rebuilt": deep, "classpar": False})
                        meta.append(("unmarshal", "wire:from_leaves", j, pas, repr(x)[:80]))
    return events, meta, model, len(composites)


def _violations(rejects, events, meta):
    out = []
    for r in rejects:
        e, m = events[r["rej"] - 1], meta[r["rej"] - 1]
        out.append(Violation(
            clause=r["clause"], case={"T": e["T"], "dir": m[0], "shape": m[1], "value_id": m[2], "pass": m[3], "input": m[4]},
            fields={"dir": m[0], "source_shape": m[1], "root_shape": shape(e["T"]), "pass": m[3],
                    "raised": e["whole"].get("e", "")},
            msg=f"{m[0]} {m[1]} T={json.dumps(e['T'])[:120]} x={m[4]} whole={json.dumps(e['whole'])[:140]} rebuilt={json.dumps(e['rebuilt'])[:140]}"))
    return out


def routing(ctx: Ctx, direct_small: bool = False):
    """spec/Factory.tla: the model of the routine factory is checked, its (topology, root) cases are emitted and the
    routine tables the real factory builds for them are validated against the model's own definitions."""
    from .. import routing as rt
    rng = random.Random(ctx.seed)
    base = open(tlc.SPEC_DIR + "/MC_Factory.cfg").read()
    noliv = base.replace("PROPERTY Terminates\n", "")
    # quick: fields are scalars, structural types and named wrappers (442 k states); thorough adds direct class fields and liveness
    small = noliv.replace("Direct = TRUE", "Direct = FALSE")
    if direct_small:       # C15's quick tier: direct class fields kept, one field per class in the model, two in the emitted cases
        small = noliv.replace("MaxFields = 2", "MaxFields = 1")
    model = tlc.must(tlc.run("Factory", cfg_text=small if ctx.quick else base, workers=16, timeout=7200), "Factory model")
    states, trans = model.distinct, model.generated
    if not ctx.quick:
        m2 = tlc.must(tlc.run("Factory", cfg_text=noliv.replace("MaxFields = 2", "MaxFields = 1")
                              .replace('Kinds = {"opt"}', 'Kinds = {"opt", "list", "dict", "tupv"}').replace("NClasses = 2", "NClasses = 3"),
                              workers=16, timeout=7200), "Factory model, 3 classes x 1 field x 4 kinds")
        states += m2.distinct; trans += m2.generated
    for cfg, inv in (("MC_Factory_alias.cfg", "RoutingCorrect"), ("MC_Factory_pinned.cfg", "RoutingCorrect"),
                     ("MC_Factory_reuse.cfg", "RootIsReal"), ("MC_Factory_get.cfg", "RoutingCorrect")):
        r = tlc.run("Factory", cfg, workers=8, timeout=1800)      # one field per class is enough for each counterexample
        if r.ok or inv not in r.stdout:
            raise tlc.MachineryError(f"Factory model not sensitive: {cfg} must violate {inv}")
    ecfg = (noliv.replace("Emit = FALSE", "Emit = TRUE").replace("INVARIANT BuildNeverFails", "INVARIANT EmitCase\nCONSTRAINT InitOnly"))
    if not ctx.quick:
        ecfg = ecfg.replace('Kinds = {"opt"}', 'Kinds = {"opt", "list"}')
    em = tlc.must(tlc.run("Factory", cfg_text=ecfg, workers=1, timeout=7200), "Factory emit")
    cases = {json.dumps(p, sort_keys=True): p for p in em.printed if isinstance(p, dict) and "topo" in p}
    cases = [cases[k] for k in sorted(cases)]
    ncases = len(cases)
    cases = rng.sample(cases, min(len(cases), (700 if direct_small else 1500) if ctx.quick else 60000))
    clear_typelib_caches()
    events, meta, drift = [], [], []
    for k, c in enumerate(cases):
        case = rt.Case(c["topo"], c["root"], variant=k % 8)
        for direction in ("unmarshal", "marshal"):
            ev, unmapped = rt.observe(case, direction)
            if unmapped:                      # the harness could not read the table back: reported, never a verdict
                if len(drift) < 20:
                    drift.append({"case": c, "dir": direction, "unmapped": unmapped[:3]})
                continue
            events.append(ev)
            meta.append({"routing": True, "topo": c["topo"], "root": c["root"], "variant": k % 8, "dir": direction})
        case.dispose()
    tres, rejects = tlc.validate_trace("Factory_Trace", "Factory_Trace.cfg", events, timeout=7200)
    viol = []
    for r in rejects:
        e, m = events[r["rej"] - 1], meta[r["rej"] - 1]
        tags = sorted({ft[0] for fs in m["topo"] for ft in fs})
        viol.append(Violation(clause=r["clause"], case=m,
                              fields={"dir": m["dir"], "root_tag": m["root"][0], "field_tags": tags, "raised": e["raised"]},
                              msg=f"{json.dumps(m)[:200]} rootr={e['rootr']} comps={json.dumps(e['comps'])[:300]}"))
    proxies = sum(1 for e in events if any(s["kind"] == "delayed" for c in e["comps"] for s in c["rs"]))
    cov = {"factory_model_states": states, "factory_model_transitions": trans, "factory_cases_emitted": ncases,
           "factory_tables_validated": len(events), "factory_tables_with_proxies": proxies}
    return viol, cov, drift, len(events)


def run(ctx: Ctx) -> Outcome:
    profile = "quick" if ctx.quick else "full"
    events, meta, model, ncomp = collect(ctx, profile)
    tres, rejects = tlc.validate_trace("Member_Trace", "Member_Trace.cfg", events, timeout=7200)
    viol = _violations(rejects, events, meta)
    rviol, rcov, rdrift, rn = routing(ctx)
    viol += rviol
    nontrivial = {(json.dumps(e["T"], sort_keys=True), m[0], m[1], m[2]) for e, m in zip(events, meta)
                  if len(e["parts"]) >= 1 and e["whole"]["k"] == "ok"}
    shapes = collections.Counter(m[1] for m in meta)
    cov = {"states": model.distinct + rcov["factory_model_states"], "transitions": model.generated + rcov["factory_model_transitions"],
           "exhaustive": True, **rcov,
           "traces_validated_against_impl": len(events) + rn, "evaluations": len(events) + rn,
           "distinct_nontrivial": len(nontrivial), "composite_types": ncomp, "by_source_shape": dict(shapes),
           "rule": "every composite type of the TLC universe (collections, mappings, fixed tuples, 15 structured classes incl. same-named "
                   "classes in two modules, shared field names, recursive and mutually recursive ones, aliases as members) x pool values: "
                   "marshal whole vs rebuilt from member marshals; then the wire value in every documented source shape (mapping, pairs, JSON "
                   "text/bytes, repr text, foreign object, tuple, and one-shot sources: generator, iter(), map(), zip(), items view) unmarshalled whole vs rebuilt from independently obtained member "
                   "routines; class types are visited in both orders; non-trivial = composite succeeded, distinct by (type, direction, shape, value)",
           "samples": [events[len(events) // 3], events[-1]]}
    cov["rule"] += ("; routing: spec/Factory.tla (graph walk, context writes, member resolution, proxies) checked for every topology of 2 "
                    "classes x <=2 fields over scalar / class / Optional / NewType-or-alias of a class / alias of Optional, every type as "
                    "root, every order graphlib may choose; four wrong variants must fail; the emitted (topology, root) cases are "
                    "materialised, the real unmarshaller and marshaller are built (never called) and their routine tables -- kind and "
                    "type of every member slot -- are judged by Factory's own RoutingCorrect / RootIsReal")
    return Outcome(level="model_checking", coverage=cov, violations=viol, impl_drift=rdrift,
                   assumptions=["decomposition of inputs and the rebuild with the Python constructors are done by the harness; TLC compares terms",
                                "routine tables are read from the routine objects' attributes (t, fields_by_var, ordered_routines/stack, keys, values); "
                                "a table the harness cannot read back is reported as drift, never as a violation",
                                "member routines are obtained by separate top-level calls in the same process"])


def replay(ctx: Ctx, rep: dict) -> Outcome:
    c = rep["case"]
    if c.get("routing"):
        from .. import routing as rt
        case = rt.Case(c["topo"], c["root"], variant=c["variant"])
        ev, unmapped = rt.observe(case, c["dir"])
        print("  ", case.ann, ev, unmapped)
        _, rejects = tlc.validate_trace("Factory_Trace", "Factory_Trace.cfg", [ev])
        return Outcome(level="model_checking", coverage={"evaluations": 1},
                       violations=[Violation(clause=r["clause"], case=c, fields={}, msg=json.dumps(ev)[:300]) for r in rejects])
    events, meta, _, _ = collect(Ctx(pid="C05", tier="quick", seed=ctx.seed), "quick")
    key = json.dumps(c["T"], sort_keys=True)
    sel = [(e, m) for e, m in zip(events, meta) if json.dumps(e["T"], sort_keys=True) == key and m[0] == c["dir"] and m[1] == c["shape"]]
    for e, m in sel:
        print("  ", m, json.dumps(e["whole"])[:160], "| rebuilt", json.dumps(e["rebuilt"])[:160])
    ev = [e for e, _ in sel]
    _, rejects = tlc.validate_trace("Member_Trace", "Member_Trace.cfg", ev)
    return Outcome(level="model_checking", coverage={"evaluations": len(ev)}, violations=_violations(rejects, ev, [m for _, m in sel]))
