"""C01 -- unmarshal(marshal(v)) restores v (strict), or the weak fixpoint where a union is ambiguous."""
from __future__ import annotations

import json
import random
import warnings

from .. import tlc, valuestream as vs
from ..core import Ctx, Outcome, Violation
from ..terms import clear_typelib_caches, project
from ..typeterms import LEAF_POOLS, values
from .c03 import shape
from .c13 import leafkinds

_AMB: dict = {}
_WIT: dict = {}
DEFS: list = [None]


def _is_none(t):
    return t["k"] == "prim" and t["n"] == "NoneType"


def union_ambiguous(U, env, rng):
    """Does an earlier member of this union take over a later member's value, on either side?
    Decided with the real member routines over the members' pools (only selects which law applies)."""
    import typelib
    key = json.dumps(U, sort_keys=True)
    if key in _AMB:
        return _AMB[key]
    members = [m for m in U["xs"] if not _is_none(m)]
    anns = [env.annotation(m) for m in members]
    amb = False
    wit = {}
    for j in range(1, len(members)):
        pool = LEAF_POOLS[members[j]["n"]] if members[j]["k"] == "prim" else values(members[j], env, rng, 4)
        for v in pool:
            try:
                wj = typelib.marshal(v, t=anns[j])
            except Exception:
                continue
            for i in range(j):
                for side, fn, arg in (("marshal", typelib.marshaller(anns[i]), v), ("unmarshal", typelib.unmarshaller(anns[i]), wj)):
                    try:
                        fn(arg)
                        amb = True
                    except Exception:
                        continue
                    # what was taken over by which kind of member: judged by the trace spec (a container never takes a scalar)
                    a = project(arg)
                    mk = members[i]
                    while mk["k"] in ("newtype", "alias", "salias"):
                        mk = mk["a"]
                    w = {"mk": mk["k"], "ak": a["k"], "mix": a.get("mix", "-"), "side": side}
                    wit[json.dumps(w, sort_keys=True)] = w
    _AMB[key] = amb
    _WIT[key] = [wit[k] for k in sorted(wit)]
    return amb


def union_sigs(T, defs, seen=()):
    """Signatures 'kind|kind|..' of the multi-member unions inside T (for classifying findings)."""
    k = T["k"]
    out = []
    if k == "union":
        nn = [m for m in T["xs"] if not _is_none(m)]
        if len(nn) >= 2:
            out.append("|".join(m.get("n") or m.get("e") or ("cls" if m["k"] == "cls" else m["k"]) for m in nn))
        for m in nn:
            out += union_sigs(m, defs, seen)
    elif k == "cls":
        if T["c"] not in seen:
            for f in defs[T["c"]]["fields"]:
                out += union_sigs(f[1], defs, seen + (T["c"],))
    else:
        for key in ("a", "ka", "va"):
            if isinstance(T.get(key), dict):
                out += union_sigs(T[key], defs, seen)
        if k == "tup":
            for x in T["xs"]:
                out += union_sigs(x, defs, seen)
    return out


def composite_key(T, defs, seen=()):
    """Does T contain a mapping whose key type marshals to a non-primitive (list/dict) wire form?"""
    k = T["k"]
    def strip(t):
        while t["k"] in ("newtype", "alias", "salias", "final", "classvar", "noinit", "annotated"):
            t = t["a"]
        return t
    if k == "map":
        kt = strip(T["ka"])
        if kt["k"] in ("tup", "coll", "map", "cls"):
            return True
        if kt["k"] == "union" and any(strip(m)["k"] in ("tup", "coll", "map", "cls") for m in kt["xs"]):
            return True
        return composite_key(T["ka"], defs, seen) or composite_key(T["va"], defs, seen)
    if k == "cls":
        if T["c"] in seen:
            return False
        return any(composite_key(f[1], defs, seen + (T["c"],)) for f in defs[T["c"]]["fields"])
    for key in ("a",):
        if isinstance(T.get(key), dict) and composite_key(T[key], defs, seen):
            return True
    if k in ("tup", "union"):
        return any(composite_key(x, defs, seen) for x in T["xs"])
    return False


def composite_key_in_union(T, defs, inside=False, seen=()):
    """Is a composite-key mapping (see composite_key) located inside a union member?  There the member's TypeError
    is swallowed by the union, which reports ValueError."""
    k = T["k"]
    if k == "union":
        return any(composite_key(m, defs) or composite_key_in_union(m, defs, True, seen) for m in T["xs"])
    if k == "cls":
        if T["c"] in seen:
            return False
        return any(composite_key_in_union(f[1], defs, inside, seen + (T["c"],)) for f in defs[T["c"]]["fields"])
    for key in ("a", "ka", "va"):
        if isinstance(T.get(key), dict) and composite_key_in_union(T[key], defs, inside, seen):
            return True
    if k == "tup":
        return any(composite_key_in_union(x, defs, inside, seen) for x in T["xs"])
    return False


def witnesses(T, defs, seen=()):
    """Take-over witnesses (see union_ambiguous) of every union inside T."""
    k = T["k"]
    out = []
    if k == "union":
        out += _WIT.get(json.dumps(T, sort_keys=True), [])
        for m in T["xs"]:
            out += witnesses(m, defs, seen)
    elif k == "cls":
        if T["c"] not in seen:
            for f in defs[T["c"]]["fields"]:
                out += witnesses(f[1], defs, seen + (T["c"],))
    else:
        for key in ("a", "ka", "va"):
            if isinstance(T.get(key), dict):
                out += witnesses(T[key], defs, seen)
        if k == "tup":
            for x in T["xs"]:
                out += witnesses(x, defs, seen)
    uniq = {json.dumps(w, sort_keys=True): w for w in out}
    return [uniq[k] for k in sorted(uniq)]


def type_ambiguous(T, defs, env, rng, seen=()):
    k = T["k"]
    if k == "union":
        nn = [m for m in T["xs"] if not _is_none(m)]
        if len(nn) >= 2 and union_ambiguous(T, env, rng):
            return True
        return any(type_ambiguous(m, defs, env, rng, seen) for m in nn)
    if k == "cls":
        if T["c"] in seen:
            return False
        return any(type_ambiguous(f[1], defs, env, rng, seen + (T["c"],)) for f in defs[T["c"]]["fields"])
    for key in ("a", "ka", "va"):
        if isinstance(T.get(key), dict) and type_ambiguous(T[key], defs, env, rng, seen):
            return True
    if k == "tup":
        return any(type_ambiguous(x, defs, env, rng, seen) for x in T["xs"])
    return False


def collect(ctx: Ctx, profile: str):
    import typelib
    rng = random.Random(ctx.seed)
    defs, types, model = vs.universe(profile)
    DEFS[0] = defs
    env = vs.make_env(defs)
    warnings.simplefilter("ignore")
    clear_typelib_caches()
    events, meta = [], []
    respell: list = []
    # second pass: the scalar leaves again in reverse order with warm caches (equal-but-different values
    # of different types, e.g. Fraction(3, 2) and Decimal("1.50"), then meet the value memos in both orders)
    leaves = [T for T in types if T["k"] in ("prim", "enum")]
    for T in types + leaves[::-1]:
        ann = env.annotation(T)
        if union_sigs(T, defs):
            # Union[A, B] == Union[B, A]: every ==-keyed memo would serve the first-built permutation
            # (that cross-talk is C12's subject); C01 measures each annotation with cold caches
            clear_typelib_caches()
        amb = type_ambiguous(T, defs, env, rng)
        ambw = witnesses(T, defs) if amb else []
        for j, v in enumerate(values(T, env, rng, 4 if T["k"] != "prim" else 8)):
            vt = project(v)
            w, wv = vs.out_of(typelib.marshal, v, t=ann)
            r = w2 = {"k": "raised", "e": "skipped"}
            if w["k"] == "ok":
                r, rv = vs.out_of(typelib.unmarshal, ann, wv)
                if r["k"] == "ok":
                    w2, _ = vs.out_of(typelib.marshal, rv, t=ann)
            events.append({"ev": "roundtrip", "T": T, "v": vt, "w": w, "r": r, "w2": w2, "amb": amb, "ambw": ambw})
            meta.append((j, repr(v)[:100]))
            if j == 0 and T["k"] in ("coll", "map", "tup", "union") and not union_sigs(T, defs):
                respell.append((T, v, vt, amb, ambw))
    # the same annotations spelled anew at every call site, as users write them inline: `marshal(v, t=list[int])` makes a new
    # annotation object per call, which dies with the call -- three rounds over a sample, other types in between (the object of
    # the first spelling may live on in a memo key; what is served to the later, short-lived ones is the subject here)
    sample = rng.sample(respell, min(len(respell), 60 if profile == "quick" else 400))
    for rnd in range(3):
        rng.shuffle(sample)
        for T, v, vt, amb, ambw in sample:
            w, wv = vs.out_of(typelib.marshal, v, t=env.annotation(T))
            r = w2 = {"k": "raised", "e": "skipped"}
            if w["k"] == "ok":
                r, rv = vs.out_of(typelib.unmarshal, env.annotation(T), wv)
                if r["k"] == "ok":
                    w2, _ = vs.out_of(typelib.marshal, rv, t=env.annotation(T))
            events.append({"ev": "roundtrip", "T": T, "v": vt, "w": w, "r": r, "w2": w2, "amb": amb, "ambw": ambw})
            meta.append((0, "respelled round %d: %s" % (rnd, repr(v)[:80])))
    return events, meta, model, len(types)


def _violations(rejects, events, meta):
    out, notvalid = [], 0
    for r in rejects:
        if r["clause"] == "NOTVALID":
            notvalid += 1
            continue
        e = events[r["rej"] - 1]
        m = meta[r["rej"] - 1]
        raised = next((e[k].get("e") for k in ("w", "r", "w2") if e[k]["k"] == "raised" and e[k].get("e") != "skipped"), "")
        out.append(Violation(
            clause=r["clause"], case={"T": e["T"], "value_id": m[0], "value_repr": m[1]},
            fields={"root_shape": shape(e["T"]), "leaves": sorted(leafkinds(e["v"]))[:6], "raised": raised, "amb": e["amb"],
                    "union_sig": (union_sigs(e["T"], DEFS[0]) or ["-"])[0], "composite_key": composite_key(e["T"], DEFS[0]),
                    "composite_key_in_union": composite_key_in_union(e["T"], DEFS[0])},
            msg=f"T={json.dumps(e['T'])[:140]} v={m[1]} w={json.dumps(e['w'])[:120]} r={json.dumps(e['r'])[:160]}"))
    return out, notvalid


def run(ctx: Ctx) -> Outcome:
    profile = "quick" if ctx.quick else "full"
    events, meta, model, ntypes = collect(ctx, profile)
    tres, rejects = tlc.validate_trace("Wire_Trace", "Wire_Trace.cfg", events, timeout=7200)
    viol, notvalid = _violations(rejects, events, meta)
    # implementation-shaped layer: marshal output vs the reference wire relation IsWireOf (spec/Wire.tla)
    drifts = [p["drift"] for p in tres.printed if isinstance(p, dict) and "drift" in p]
    drift = [{"T": events[i - 1]["T"], "value": meta[i - 1][1], "wire": events[i - 1]["w"]} for i in drifts[:20]]
    if notvalid > len(events) // 2:
        raise tlc.MachineryError(f"{notvalid} of {len(events)} generated values are not Exact instances of their type")
    strict = sum(1 for e in events if not e["amb"])
    nontrivial = {(json.dumps(e["T"], sort_keys=True), json.dumps(e["v"], sort_keys=True)) for e in events
                  if e["v"]["k"] not in ("none",)}
    cov = {"states": model.distinct, "transitions": model.generated, "exhaustive": True,
           "traces_validated_against_impl": len(events), "evaluations": len(events),
           "distinct_nontrivial": len(nontrivial), "types": ntypes, "strict_law_events": strict,
           "weak_law_only_events": len(events) - strict, "values_rejected_as_not_exact": notvalid,
           "wire_form_checked_against_reference": strict, "wire_form_differs_from_reference": len(drifts),
           "rule": "every type of the TLC universe x up to 4 boundary-biased pool values: marshal, unmarshal, marshal again; TLC checks "
                   "Exact(T, v), then r = v as terms (strict) unless a union in T is ambiguous (earlier member takes a later member's "
                   "value on either side, decided with the real member routines), and w2 = w always; distinct by (type, value)",
           "samples": [events[len(events) // 4], events[len(events) // 2]]}
    return Outcome(level="model_checking", coverage=cov, violations=viol, impl_drift=drift,
                   assumptions=["ambiguity of a union is decided with the real member routines over the member pools; it only selects the law",
                                "naive temporals, NaN/inf and non-default-flag patterns are outside U"])


def replay(ctx: Ctx, rep: dict) -> Outcome:
    import typelib
    c = rep["case"]
    defs, types, model = vs.universe("quick")
    DEFS[0] = defs
    env = vs.make_env(defs)
    rng = random.Random(ctx.seed)
    ann = env.annotation(c["T"])
    v = values(c["T"], env, rng, 4)[c["value_id"]]
    w, wv = vs.out_of(typelib.marshal, v, t=ann)
    r = w2 = {"k": "raised", "e": "skipped"}
    if w["k"] == "ok":
        r, rv = vs.out_of(typelib.unmarshal, ann, wv)
        if r["k"] == "ok":
            w2, _ = vs.out_of(typelib.marshal, rv, t=ann)
    print("  ", ann, repr(v)[:100], "->", w, "->", r)
    amb = type_ambiguous(c["T"], defs, env, rng)
    ev = [{"ev": "roundtrip", "T": c["T"], "v": project(v), "w": w, "r": r, "w2": w2,
           "amb": amb, "ambw": witnesses(c["T"], defs) if amb else []}]
    _, rejects = tlc.validate_trace("Wire_Trace", "Wire_Trace.cfg", ev)
    viol, _ = _violations(rejects, ev, [(c["value_id"], c["value_repr"])])
    return Outcome(level="model_checking", coverage={"evaluations": 1}, violations=viol)
