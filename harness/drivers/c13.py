"""C13 -- already-valid values pass through unmarshal unchanged; unmarshal is idempotent."""
from __future__ import annotations

import json
import random
import warnings

from .. import tlc, valuestream as vs
from ..core import Ctx, Outcome, Violation
from ..terms import clear_typelib_caches, project
from ..typeterms import values
from .c03 import shape


def optional_only(T, defs, seen=()):
    """Union-free or only Optional, through class fields too."""
    k = T["k"]
    if k == "union":
        xs = T["xs"]
        nn = [x for x in xs if not (x["k"] == "prim" and x["n"] == "NoneType")]
        if len(xs) != 2 or len(nn) != 1:
            return False
        return optional_only(nn[0], defs, seen)
    if k == "cls":
        if T["c"] in seen:
            return True
        return all(optional_only(f[1], defs, seen + (T["c"],)) for f in defs[T["c"]]["fields"])
    for key in ("a", "ka", "va"):
        if isinstance(T.get(key), dict) and not optional_only(T[key], defs, seen):
            return False
    if k == "tup":
        return all(optional_only(x, defs, seen) for x in T["xs"])
    return True


def leafkinds(v):
    out = set()
    if isinstance(v, dict):
        if v.get("k") in ("enum",):
            out.add("enum:" + v.get("sn", "") + "." + v.get("m", ""))
        elif "k" in v and not any(key in v for key in ("xs", "kv", "fv")):
            out.add(v["k"])
        for x in v.values():
            out |= leafkinds(x)
    elif isinstance(v, list):
        for x in v:
            out |= leafkinds(x)
    return out


def collect(ctx: Ctx, profile: str, quick: bool):
    import typelib
    rng = random.Random(ctx.seed)
    defs, types, model = vs.universe(profile)
    env = vs.make_env(defs)
    warnings.simplefilter("ignore")
    clear_typelib_caches()
    events, meta = [], []
    for T in types:
        ann = env.annotation(T)
        oo = optional_only(T, defs)
        vals = values(T, env, rng, 4)
        if oo:
            for j, v in enumerate(vals):
                vt = project(v)
                out, _ = vs.out_of(typelib.unmarshal, ann, v)
                events.append({"ev": "passthrough", "T": T, "v": vt, "out": out})
                meta.append(("value", j, repr(v)[:100]))
        # idempotence over junk: the statement derives it from pass-through, so same type scope
        if not oo:
            continue
        junk = vs.junk_pool(env)
        idx = sorted(rng.sample(range(len(junk)), 12 if quick else 30))
        for i in idx:
            o1, r1 = vs.out_of(typelib.unmarshal, ann, junk[i])
            if o1["k"] != "ok" or o1["r"]["k"] in ("iter", "opaque"):
                continue
            o2, _ = vs.out_of(typelib.unmarshal, ann, r1)
            events.append({"ev": "idem", "T": T, "out1": o1, "out2": o2})
            meta.append(("junk", i, repr(junk[i])[:100]))
    # bytes-like roots behind a wrapper (Optional, NewType), with payloads that are no UTF-8 text: a valid value of a bytes-like
    # type is not text to be decoded -- through the one-shot entry point and through the routine alike
    import typing
    P = lambda n: {"k": "prim", "n": n}                                            # noqa: E731
    OPT = lambda a: {"k": "union", "sp": "Optional", "xs": [a, P("NoneType")]}    # noqa: E731
    NTb = typing.NewType("NTb", bytes)
    for T, ann, mk in ((OPT(P("bytes")), typing.Optional[bytes], bytes), ({"k": "newtype", "a": P("bytes")}, NTb, bytes),
                       (OPT(P("bytearray")), typing.Optional[bytearray], bytearray)):
        for j, raw in enumerate((b"\x89PNG\r\n", b"\xff\xfe\x00", b"caf\xe9", b"abc")):
            for name, fn in (("unmarshal()", lambda x: typelib.unmarshal(ann, x)), ("unmarshaller()", typelib.unmarshaller(ann))):
                v = mk(raw)
                out, _ = vs.out_of(fn, v)
                events.append({"ev": "passthrough", "T": T, "v": project(mk(raw)), "out": out})
                meta.append(("bytes-like value via " + name, j, repr(v)[:100]))
    return events, meta, model, len(types)


def _violations(rejects, events, meta):
    out, notvalid = [], 0
    for r in rejects:
        if r["clause"] == "NOTVALID":
            notvalid += 1
            continue
        e = events[r["rej"] - 1]
        m = meta[r["rej"] - 1]
        vt = e.get("v") or e.get("out1", {}).get("r")
        out.append(Violation(
            clause=r["clause"],
            case={"T": e["T"], "input_kind": m[0], "input_id": m[1], "input_repr": m[2]},
            fields={"root_shape": shape(e["T"]), "leaves": sorted(leafkinds(vt))[:6],
                    "raised": (e.get("out") or e.get("out2") or {}).get("e", "")},
            msg=f"{e['ev']} T={json.dumps(e['T'])[:140]} input={m[2]} -> {json.dumps(e.get('out') or e.get('out2'))[:160]}"))
    return out, notvalid


def run(ctx: Ctx) -> Outcome:
    profile = "quick" if ctx.quick else "full"
    events, meta, model, ntypes = collect(ctx, profile, ctx.quick)
    tres, rejects = tlc.validate_trace("Wire_Trace", "Wire_Trace.cfg", events, timeout=7200)
    viol, notvalid = _violations(rejects, events, meta)
    npass = sum(1 for e in events if e["ev"] == "passthrough")
    if notvalid > npass // 2:
        raise tlc.MachineryError(f"{notvalid} of {npass} generated values are not Exact instances of their type")
    nontrivial = {(json.dumps(e["T"], sort_keys=True), json.dumps(e.get("v") or e.get("out1"), sort_keys=True)) for e in events}
    cov = {"states": model.distinct, "transitions": model.generated, "exhaustive": True,
           "traces_validated_against_impl": len(events), "evaluations": len(events),
           "distinct_nontrivial": len(nontrivial), "types": ntypes, "passthrough_events": npass,
           "idempotence_events": len(events) - npass, "values_rejected_as_not_exact": notvalid,
           "rule": "pass-through: every union-free/Optional-only type of the TLC universe x up to 4 pool values (TLC first checks "
                   "Exact(T, v)); idempotence: every type x junk sample on which the first call succeeds; distinct by (type, value)",
           "samples": [events[len(events) // 4], events[-1]]}
    return Outcome(level="model_checking", coverage=cov, violations=viol,
                   assumptions=["equality is equality of projected terms (runtime class at every position, offsets, fold)"])


def replay(ctx: Ctx, rep: dict) -> Outcome:
    import typelib
    c = rep["case"]
    defs, types, model = vs.universe("quick")
    env = vs.make_env(defs)
    rng = random.Random(ctx.seed)
    ann = env.annotation(c["T"])
    if c["input_kind"] == "value":
        v = values(c["T"], env, rng, 4)[c["input_id"]]
        out, _ = vs.out_of(typelib.unmarshal, ann, v)
        ev = [{"ev": "passthrough", "T": c["T"], "v": project(v), "out": out}]
        print("  ", ann, repr(v)[:100], "->", out)
    else:
        x = vs.junk_pool(env)[c["input_id"]]
        o1, r1 = vs.out_of(typelib.unmarshal, ann, x)
        o2, _ = vs.out_of(typelib.unmarshal, ann, r1)
        ev = [{"ev": "idem", "T": c["T"], "out1": o1, "out2": o2}]
        print("  ", ann, repr(x)[:100], "->", o1, "->", o2)
    _, rejects = tlc.validate_trace("Wire_Trace", "Wire_Trace.cfg", ev)
    v, _ = _violations(rejects, ev, [(c["input_kind"], c["input_id"], c["input_repr"])])
    return Outcome(level="model_checking", coverage={"evaluations": 1}, violations=v)
