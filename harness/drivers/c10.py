"""C10 -- bound callables get every argument converted per its own parameter (spec/Binding.tla)."""
from __future__ import annotations

import enum
import inspect
import random
import sys
import types

from .. import tlc
from ..core import Ctx, Outcome, Violation
from ..terms import clear_typelib_caches

_N = [0]
FORMS = ["function", "method", "instance", "class", "closure", "method_after_unbound", "slotted_instance_after_dead", "class_on_wrapped_base", "decorated_function"]
CLASS_FORMS = ("class", "class_new", "class_on_wrapped_base")


def tokens(npos_max, names):
    return [f"a{j}" for j in range(1, npos_max + 1)] + [f"v_{n}" for n in names]


def build_callable(sig, form, toks):
    """Generate source for a callable with this signature; each annotated parameter gets its own Enum
    class having every raw token as a value, so the class of a received argument names its converter."""
    _N[0] += 1
    modname = f"verif_bind_{_N[0]}"
    mod = types.ModuleType(modname)
    sys.modules[modname] = mod
    enums = {}
    for i, p in enumerate(sig, 1):
        if p["ann"]:
            enums[f"E{i}"] = enum.Enum(f"E{i}", {f"m{k}": t for k, t in enumerate(toks)}, module=modname)
    mod.__dict__.update(enums)
    parts, seen_po_end, star = [], False, False
    npo = sum(1 for p in sig if p["kind"] == "po")
    for i, p in enumerate(sig, 1):
        ann = f": E{i}" if p["ann"] else ""
        # the default is the very text the parameter gets when it is passed by keyword: an explicit argument that equals the
        # default (but is to be converted) must not be mistaken for "nothing passed"
        dflt = f" = 'v_p{i}'" if p["dflt"] else ""
        if p["kind"] == "ko" and not star:
            if not any(q["kind"] == "va" for q in sig):
                parts.append("*")
            star = True
        if p["kind"] == "va":
            parts.append(f"*p{i}{ann}"); star = True
        elif p["kind"] == "vk":
            parts.append(f"**p{i}{ann}")
        else:
            parts.append(f"p{i}{ann}{dflt}")
        if p["kind"] == "po" and i == npo:
            parts.append("/")
    params = ", ".join(parts)
    ret = "{" + ", ".join(f"'p{i}': p{i}" for i in range(1, len(sig) + 1)) + "}"
    # classes and callable instances also declare *attributes* named like the parameters, annotated with other Enum classes:
    # the parameter's own annotation decides, not a class-body annotation of the same name
    body_ann = ""
    if form in ("instance", "class", "class_new") and enums:
        battr = {f"B{k[1:]}": enum.Enum(f"Y{k[1:]}", {f"m{j}": t for j, t in enumerate(toks)}, module=modname) for k in enums}
        mod.__dict__.update(battr)
        body_ann = "".join(f"    p{k[1:]}: B{k[1:]}\n" for k in sorted(enums))
    if form == "function":
        src = f"def f({params}):\n    'doc of f'\n    return {ret}\n"
    elif form == "decorated_function":
        # a function under a decorator that uses functools.wraps (so it carries __wrapped__): what is bound is the callable that
        # was given -- its outer layer runs (and leaves a mark in the result)
        src = (f"import functools\ndef deco(fn):\n    @functools.wraps(fn)\n    def outer(*a, **k):\n        r = fn(*a, **k)\n"
               f"        r['__outer__'] = True\n        return r\n    return outer\n"
               f"@deco\ndef f({params}):\n    'doc of f'\n    return {ret}\n")
    elif form == "method":
        src = f"class C:\n    def m(self, {params}):\n        'doc of m'\n        return {ret}\nf = C().m\n"
    elif form == "method_after_unbound":
        # the same function is first bound through the class (signature with `self`), then through an instance
        src = (f"class C:\n    def m(self, {params}):\n        'doc of m'\n        return {ret}\n"
               f"decoy = C.m\ndecoy_self = C()\nf = C().m\n")
    elif form == "instance":
        src = f"class C:\n{body_ann}    def __call__(self, {params}):\n        'doc of call'\n        return {ret}\nf = C()\n"
    elif form == "closure":
        # a factory whose product shares one code object across calls but not its annotations:
        # first a decoy product (other Enum classes) is bound and called, then the real one
        ens = ", ".join(sorted(enums)) or "_"
        decoys = {f"D{k[1:]}": enum.Enum(f"X{k[1:]}", {f"m{j}": t for j, t in enumerate(toks)}, module=modname) for k in enums}
        mod.__dict__.update(decoys)
        dec = ", ".join(f"D{k[1:]}" for k in sorted(enums)) or "None"
        src = (f"def make({ens}):\n    def f({params}):\n        'doc of f'\n        return {ret}\n    return f\n"
               f"decoy = make({dec})\nf = make({ens if enums else 'None'})\n")
    elif form == "slotted_instance_after_dead":
        # two callable classes without __dict__ / __weakref__; an instance of the first (annotated with other Enum classes) is
        # bound, called and dropped, then an instance of the second is made -- CPython hands out the same address again
        decoys = {f"D{k[1:]}": enum.Enum(f"X{k[1:]}", {f"m{j}": t for j, t in enumerate(toks)}, module=modname) for k in enums}
        mod.__dict__.update(decoys)
        dparams = params
        for k in sorted(enums, key=len, reverse=True):
            dparams = dparams.replace(f": {k}", f": D{k[1:]}")
        src = (f"class C0:\n    __slots__ = ()\n    def __call__(self, {dparams}):\n        return {ret}\n"
               f"class C:\n    __slots__ = ()\n    def __call__(self, {params}):\n        'doc of call'\n        return {ret}\n"
               f"decoy = C0()\nf = None\n")
    elif form == "class":
        src = (f"class f:\n    'doc of class'\n{body_ann}    def __init__(self, {params}):\n        self.got = {ret}\n")
    elif form == "class_on_wrapped_base":
        # a class with its own annotated constructor, derived from a class (annotated with other Enum classes) that was wrapped
        # before: wrapping the derived class converts by the derived constructor's parameters
        decoys = {f"D{k[1:]}": enum.Enum(f"X{k[1:]}", {f"m{j}": t for j, t in enumerate(toks)}, module=modname) for k in enums}
        mod.__dict__.update(decoys)
        dparams = params
        for k in sorted(enums, key=len, reverse=True):
            dparams = dparams.replace(f": {k}", f": D{k[1:]}")
        src = (f"class C0:\n    def __init__(self, {dparams}):\n        self.got = {ret}\n"
               f"class f(C0):\n    'doc of class'\n    def __init__(self, {params}):\n        self.got = {ret}\ndecoy = C0\n")
    elif form == "class_new":
        # a pass-through __new__: inspect.signature(cls) is then (*args, **kwargs), the annotated __init__ still decides
        src = (f"class f:\n    'doc of class'\n{body_ann}    def __new__(cls, *args, **kwargs):\n        return super().__new__(cls)\n"
               f"    def __init__(self, {params}):\n        self.got = {ret}\n")
    exec(compile(src, "<verif-generated>", "exec", dont_inherit=True), mod.__dict__)
    return mod.f, mod, src


ALLTOKS = tokens(8, [f"p{i}" for i in range(1, 7)] + ["x1", "x2"])
_BUILT: dict = {}


def _get_built(sig, form, entry):
    from typelib import binding
    key = (repr(sig), form, entry)
    if key not in _BUILT:
        f, mod, src = build_callable(sig, form, ALLTOKS)
        meta = True
        if form == "closure":
            try:   # warm every memo with the decoy product first
                d = binding.bind(mod.decoy) if entry == "bind" else binding.wrap(mod.decoy)
                d(*[f"a{j}" for j in range(1, 9)])
            except Exception:
                pass
        if form == "method_after_unbound":
            try:
                d = binding.bind(mod.decoy) if entry == "bind" else binding.wrap(mod.decoy)
                d(mod.decoy_self, *[f"a{j}" for j in range(1, 9)])
            except Exception:
                pass
        if form == "class_on_wrapped_base":
            try:
                binding.wrap(mod.decoy)
                mod.decoy(*[f"a{j}" for j in range(1, 9)])
            except Exception:
                pass
        if form == "slotted_instance_after_dead":
            try:
                d = binding.bind(mod.decoy) if entry == "bind" else binding.wrap(mod.decoy)
                d(*[f"a{j}" for j in range(1, 9)])
            except Exception:
                pass
            d = None
            addr = id(mod.decoy)
            del mod.__dict__["decoy"]
            keep = []
            for _ in range(64):                 # the freed block is normally handed out at once; a few tries cost nothing
                f = mod.C()
                if id(f) == addr:
                    break
                keep.append(f)
            mod.f = f
            del keep
        try:
            if entry == "bind":
                g = binding.bind(f)
            else:
                g = binding.wrap(f)
                if form in ("function", "method", "closure", "method_after_unbound", "decorated_function"):
                    meta = (getattr(g, "__name__", None) == getattr(f, "__name__", None)
                            and getattr(g, "__doc__", None) == getattr(f, "__doc__", None)
                            and getattr(g, "__wrapped__", None) is f)
            err = None
        except Exception as e:
            g, err = None, e
        # the raw callable for the audit: for classes wrap() patches __init__ in place, so build a twin
        raw = build_callable(sig, form, ALLTOKS)[0] if form in CLASS_FORMS else f
        _BUILT[key] = (f, raw, g, err, meta, src)
    return _BUILT[key]


def observe(sig, call, form, entry):
    """Run one call through bind()/wrap(); report where each raw token landed and who converted it."""
    names = sorted(call["kw"])
    npos = call["npos"]
    f, raw, g, builderr, meta, src = _get_built(sig, form, entry)
    args = [f"a{j}" for j in range(1, npos + 1)]
    kwargs = {n: f"v_{n}" for n in names}
    ev = {"sig": sig, "npos": npos, "kw": names, "form": form, "entry": entry, "res": "ok", "pos": [], "kwobs": [],
          "meta": True}
    # audit fact: does Python itself accept this call?  (the raw, unbound callable is called;
    # inspect.Signature.bind is stricter than a real call for positional-only names given **kwargs)
    try:
        raw(*args, **kwargs)
        ev["py_accepts"] = True
    except TypeError:
        ev["py_accepts"] = False
    ev["meta"] = meta
    try:
        if builderr is not None:
            raise builderr
        got = g(*args, **kwargs)
        if form in CLASS_FORMS:
            got = got.got
        if form == "decorated_function" and not got.get("__outer__"):
            ev["res"] = "OuterLayerSkipped"          # the callable that ran is not the one that was bound
            return ev, src
    except TypeError:
        ev["res"] = "TypeError"
        return ev, src
    except Exception as e:
        ev["res"] = type(e).__name__
        return ev, src

    def conv_of(v):
        if isinstance(v, enum.Enum):
            n = type(v).__name__
            # E<i> is the annotation of parameter i; X<i> / Y<i> are decoys (another product of the factory, a class-body
            # annotation of the same name): converted by one of those is converted by the wrong thing
            return ("p" + n[1:]) if n.startswith("E") else ("decoy" + n), v.value
        return "raw", v

    landed = {}   # token -> list of (param name, conv)
    allnames = {f"p{i}" for i in range(1, len(sig) + 1)}
    for i, p in enumerate(sig, 1):
        val = got[f"p{i}"]
        items = []
        if p["kind"] == "va":
            items = [(None, v) for v in val]
        elif p["kind"] == "vk":
            items = list(val.items())
        else:
            items = [(None, val)]
        for key, v in items:
            c, raw = conv_of(v)
            if c == "raw" and raw == f"v_p{i}" and p["dflt"] and (f"p{i}" not in names or p["kind"] == "po"):
                continue            # the untouched default (a positional-only name given by keyword goes to **kwargs)
            if c == "raw" and isinstance(raw, str) and (raw in allnames or raw in names) and not raw.startswith(("a", "v_")):
                landed.setdefault(("key", raw), []).append((f"p{i}", "key", key))
            else:
                landed.setdefault(("tok", raw), []).append((f"p{i}", c, key))
    for j in range(1, npos + 1):
        ls = landed.get(("tok", f"a{j}"), [])
        if len(ls) == 1:
            ev["pos"].append([ls[0][0], ls[0][1]])
        else:
            ev["pos"].append(["lost" if not ls else "dup", "?"])
    for n in names:
        ls = landed.get(("tok", f"v_{n}"), [])
        if len(ls) == 1:
            ev["kwobs"].append([n, ls[0][0], ls[0][1]])
        else:
            ks = landed.get(("key", n), [])
            ev["kwobs"].append([n, ks[0][0] if ks else "lost", "key" if ks else "?"])
    return ev, src


def _violations(rejects, events, srcs):
    out = []
    for r in rejects:
        e = events[r["rej"] - 1]
        kinds = [p["kind"] for p in e["sig"]]
        flags = [k in kinds for k in ("po", "ko", "va", "vk", "pk")]
        out.append(Violation(
            clause="Binding." + r["clause"],
            case={"sig": e["sig"], "npos": e["npos"], "kw": e["kw"], "form": e["form"], "entry": e["entry"]},
            fields={"flags": "".join("T" if f else "F" for f in flags), "binder": r["binder"], "form": e["form"],
                    "entry": e["entry"], "res": e["res"]},
            msg=f"{e['entry']}({e['form']}) sig={kinds} npos={e['npos']} kw={e['kw']} -> res={e['res']} pos={e['pos']} kw={e['kwobs']}"))
    return out


def _slim(e):
    return {k: e[k] for k in ("sig", "npos", "kw", "res", "pos", "kwobs", "meta")}


def run(ctx: Ctx) -> Outcome:
    quick = ctx.quick
    rng = random.Random(ctx.seed)
    base = open(tlc.SPEC_DIR + "/MC_Binding.cfg").read()
    res = tlc.must(tlc.run("Binding", cfg_text=base, workers=8, timeout=3600), "Binding model (<=4 params)")
    states, trans = res.distinct, res.generated
    if not quick:
        r5 = tlc.must(tlc.run("Binding", cfg_text=base.replace("MaxParams = 4", "MaxParams = 5")
                              .replace("MaxExtraPos = 2", "MaxExtraPos = 1").replace('{"x1", "x2"}', '{"x1"}'),
                              workers=16, timeout=7200), "Binding model (5 params)")
        states += r5.distinct; trans += r5.generated
    pinned = tlc.run("Binding", cfg_text=base.replace('Matrix = "code"', 'Matrix = "pinned"')
                     .replace("ElseKey = FALSE", "ElseKey = TRUE").replace("MaxParams = 4", "MaxParams = 3"), workers=4)
    if pinned.ok or "Refines" not in pinned.stdout:
        raise tlc.MachineryError("Binding model not sensitive: the pinned table must violate Refines")
    # spec -> code: TLC emits every (signature, call) with the reference binding
    def emit(mp, unann, extrapos, extras):
        cfgt = (base.replace("Emit = FALSE", "Emit = TRUE").replace("MaxParams = 4", f"MaxParams = {mp}")
                .replace("Unannotated = FALSE", "Unannotated = " + ("TRUE" if unann else "FALSE"))
                .replace("MaxExtraPos = 2", f"MaxExtraPos = {extrapos}").replace('{"x1", "x2"}', extras))
        r = tlc.must(tlc.run("Binding", cfg_text=cfgt, workers=1, timeout=3600), "Binding emit")
        cs = [p for p in r.printed if isinstance(p, dict) and "sig" in p]
        if len(cs) * 2 != r.distinct:
            raise tlc.MachineryError(f"Binding emit: {len(cs)} cases for {r.distinct} states")
        return cs
    if quick:
        cases = emit(3, False, 1, '{"x1"}') + [c for c in emit(2, True, 1, '{"x1"}') if not all(p["ann"] for p in c["sig"])]
        # several surplus positionals behind *args: their positions run past the indices of the parameters declared after it
        np_ = lambda sig: sum(1 for p in sig if p["kind"] in ("po", "pk"))       # noqa: E731
        cases += [c for c in emit(3, False, 3, '{"x1"}') if any(p["kind"] == "va" for p in c["sig"]) and c["npos"] > np_(c["sig"]) + 1]
        big = []
    else:
        cases = emit(3, True, 2, '{"x1", "x2"}')
        big = [c for c in emit(4, False, 1, '{"x1"}') if len(c["sig"]) == 4]
    clear_typelib_caches()
    events, srcs, audit_bad = [], [], []
    plan = []
    for c in cases:
        # unannotated variants only where they matter: keep all, but vary callable form round-robin
        forms = FORMS if len(c["sig"]) <= 1 or not quick else ["function", rng.choice(FORMS[1:])]
        for form in forms:
            for entry in ("bind", "wrap"):
                plan.append((c, form, entry))
        if len(c["sig"]) >= 1 and rng.random() < (0.25 if quick else 1.0):
            plan.append((c, "class_new", "wrap"))      # (bind() of such a class sees only (*args, **kwargs): nothing to convert)
    for c in big:
        plan.append((c, "function", rng.choice(["bind", "wrap"])))
    for c, form, entry in plan:
        call = {"npos": c["npos"], "kw": c["kw"]}
        ev, src = observe(c["sig"], call, form, entry)
        if ev["py_accepts"] != c["accepts"]:
            audit_bad.append((c["sig"], call, ev["py_accepts"], c["accepts"]))
        events.append(ev); srcs.append(src)
    if audit_bad:
        raise tlc.MachineryError(f"BindRef disagrees with inspect.Signature.bind on {len(audit_bad)} calls, e.g. {audit_bad[0]}")
    tres, rejects = tlc.validate_trace("Binding_Trace", "Binding_Trace.cfg", [_slim(e) for e in events], timeout=3600)
    viol = _violations(rejects, events, srcs)
    # impl drift: the spec's table vs the table in the code
    drift = _table_drift()
    nontrivial = {(tuple((p["kind"], p["dflt"], p["ann"]) for p in e["sig"]), e["npos"], tuple(e["kw"]))
                  for e in events if e["res"] == "ok" and (e["npos"] + len(e["kw"])) >= 1}
    cov = {
        "states": states, "transitions": trans, "exhaustive": True,
        "traces_validated_against_impl": len(events), "evaluations": len(events),
        "distinct_nontrivial": len(nontrivial),
        "rule": "model: every legal signature of <=4 (thorough: <=5) parameters x every call shape (0-2 surplus positionals, "
                "every subset of parameter names + 2 surplus keywords); real: every emitted (signature, call) of <=3 parameters "
                "incl. unannotated variants x {function, method, callable instance, class} x {bind, wrap}, plus 4-parameter "
                "cases on functions; non-trivial = accepted call with at least one argument, distinct by (signature, call)",
        "audit": "BindRef.Accepts agreed with inspect.Signature.bind on every emitted call",
        "samples": [_slim(events[len(events) // 2])],
    }
    return Outcome(level="model_checking", coverage=cov, violations=viol, impl_drift=drift,
                   assumptions=["a distinct Enum class per parameter identifies the converting unmarshaller",
                                "keyword arguments naming *args/**kwargs parameters are not generated"])


def _table_drift():
    """Compare binding._BINDING_CLS_MATRIX with the spec's CodeMatrix (informational)."""
    try:
        from typelib import binding
        real = {tuple(k): v.__name__.replace("Binding", "") for k, v in binding._BINDING_CLS_MATRIX.items()}
    except Exception as e:   # table refactored away: not a violation
        return [{"table": "unreadable", "why": repr(e)}]
    return [{"real_table_rows": len(real)}] if len(real) != 32 else []


def replay(ctx: Ctx, rep: dict) -> Outcome:
    c = rep["case"]
    ev, src = observe(c["sig"], {"npos": c["npos"], "kw": c["kw"]}, c["form"], c["entry"])
    print(src); print("  ", ev)
    _, rejects = tlc.validate_trace("Binding_Trace", "Binding_Trace.cfg", [_slim(ev)])
    return Outcome(level="model_checking", coverage={"evaluations": 1}, violations=_violations(rejects, [ev], [src]))
