"""C16 -- TypeContext lookups see through aliases and references (spec/Context.tla)."""
from __future__ import annotations

import random
import sys
import types
import typing

from .. import tlc
from ..core import Ctx, Outcome, Violation

FORMS = ["self", "newtype", "alias", "salias", "final", "classvar", "fref", "nref", "aref", "sref",
         "nt_al", "nt_nt", "nt_sal", "fin_nt"]        # wrappers of wrappers
NOKEY = {"b": "-", "f": "-"}
MODNAME = "verif_ctxfam"


def build_family(bases):
    """Real key objects for [b, f]; bases and their aliases live in one generated module."""
    src = ["import typing", "from typing import NewType, Final, ClassVar, ForwardRef, TypeAliasType"]
    # the second base is a class nested in another class: it is named by the dotted path "Outer2.B2"
    path = {b: (f"Outer{b[1:]}.{b}" if b == "B2" else b) for b in bases}
    for b in bases:
        n = b[1:]
        src += [
            # the fourth base is no class but a Literal (it has no name a reference could use: wrapper forms only)
            f"{b} = typing.Literal['r', 'w']" if b == "B4" else
            f"class Outer{n}:\n    class {b}: pass" if path[b] != b else f"class {b}: pass",
            f"NT{n} = NewType('NT{n}', {path[b]})",
            f"A{n} = TypeAliasType('A{n}', {path[b]})",
            f"SA{n} = TypeAliasType('SA{n}', '{path[b]}')",
            f"NTA{n} = NewType('NTA{n}', A{n})",
            f"NTN{n} = NewType('NTN{n}', NT{n})",
            f"NTS{n} = NewType('NTS{n}', SA{n})",
        ]
    mod = types.ModuleType(MODNAME)
    sys.modules[MODNAME] = mod
    exec(compile("\n".join(src), "<verif-generated>", "exec", dont_inherit=True), mod.__dict__)
    fam = {}
    for b in bases:
        n = b[1:]
        cls = eval(path[b], mod.__dict__)
        fam[(b, "self")] = cls
        fam[(b, "newtype")] = getattr(mod, f"NT{n}")
        fam[(b, "alias")] = getattr(mod, f"A{n}")
        fam[(b, "salias")] = getattr(mod, f"SA{n}")
        fam[(b, "final")] = typing.Final[cls]
        fam[(b, "classvar")] = typing.ClassVar[cls]
        fam[(b, "nt_al")] = getattr(mod, f"NTA{n}")
        fam[(b, "nt_nt")] = getattr(mod, f"NTN{n}")
        fam[(b, "nt_sal")] = getattr(mod, f"NTS{n}")
        fam[(b, "fin_nt")] = typing.Final[getattr(mod, f"NT{n}")]
        fam[(b, "fref")] = typing.ForwardRef(path[b], module=MODNAME)
        fam[(b, "nref")] = typing.ForwardRef(f"NT{n}", module=MODNAME)
        fam[(b, "aref")] = typing.ForwardRef(f"A{n}", module=MODNAME)
        fam[(b, "sref")] = typing.ForwardRef(f"SA{n}", module=MODNAME)
    return fam


class Family:
    def __init__(self, bases):
        self.fam = build_family(bases)
        self.rev = {obj: kf for kf, obj in self.fam.items()}
        self.sentinel = object()

    def key(self, rec):
        return self.fam[(rec["b"], rec["f"])]

    @staticmethod
    def rec(kf):
        return {"b": kf[0], "f": kf[1]}

    # what is stored under some keys is None or another falsy object (a stored None is a value like any other: "nothing stored"
    # is told by the key, not by the value)
    SPECIAL = {("B1", "self"): None, ("B2", "self"): False, ("B3", "self"): "", ("B1", "fref"): (), ("B2", "fref"): 0,
               ("B3", "fref"): 0.0}

    def val(self, rec):
        if (rec["b"], rec["f"]) in self.SPECIAL:
            return self.SPECIAL[(rec["b"], rec["f"])]
        return "val:%s/%s" % (rec["b"], rec["f"])

    def unval(self, v):
        for kf, sv in self.SPECIAL.items():
            if v is sv or (type(v) is type(sv) and v == sv):
                return {"b": kf[0], "f": kf[1]}
        if isinstance(v, str) and v.startswith("val:"):
            b, f = v[4:].split("/")
            return {"b": b, "f": f}
        return {"b": "?", "f": repr(v)[:40]}

    def keys_of(self, ctx):
        out = []
        for k in ctx.keys():
            kf = self.rev.get(k)
            out.append(self.rec(kf) if kf else {"b": "?", "f": repr(k)[:40]})
        return sorted(out, key=lambda r: (r["b"], r["f"]))

    def apply(self, ctx, op, rec):
        """Run one operation on a real TypeContext; returns (out, how)."""
        k = self.key(rec)
        try:
            if op == "insert":
                ctx[k] = self.val(rec)
                return rec, "ok"
            if op == "getitem":
                return self.unval(ctx[k]), "value"
            if op == "get":
                # every other time the caller's default is the very object stored under the key (a default is a value like any
                # other: it must not be taken for "nothing stored")
                own = dict.get(ctx, k, self.sentinel)
                self.ngets = getattr(self, "ngets", 0) + 1
                if own is not self.sentinel and self.ngets % 2 == 0:
                    return self.unval(ctx.get(k, own)), "value"
                v = ctx.get(k, self.sentinel)
                if v is self.sentinel:
                    return NOKEY, "default"
                return self.unval(v), "value"
            if op == "contains":
                return (rec, "true") if k in ctx else (NOKEY, "false")
        except KeyError:
            return NOKEY, "KeyError"
        except Exception as e:  # any other exception is an observation too
            return NOKEY, "other:" + type(e).__name__
        raise ValueError(op)


def _new_ctx():
    from typelib.ctx import TypeContext
    return TypeContext()


def replay_transitions(fam: Family, transitions):
    """Spec -> code.  Drive a real TypeContext into each model state, take the model's
    transition, compare the operation's outcome with what the model predicted."""
    from typelib.ctx import TypeContext
    by_state: dict = {}
    for t in transitions:
        sk = (tuple(sorted((k["b"], k["f"]) for k in t["stored"])),
              tuple(sorted((k["b"], k["f"]) for k in t["memo"])))
        by_state.setdefault(sk, []).append(t)
    violations, drift, n = [], [], 0
    for (stored, memo), ts in by_state.items():
        base = _new_ctx()
        prefix = []
        for kf in stored:
            fam.apply(base, "insert", fam.rec(kf)); prefix.append(["insert", fam.rec(kf)])
        for kf in memo:
            fam.apply(base, "get", fam.rec(kf)); prefix.append(["get", fam.rec(kf)])
        want_keys = sorted([fam.rec(k) for k in set(stored) | set(memo)], key=lambda r: (r["b"], r["f"]))
        if fam.keys_of(base) != want_keys:
            drift.append({"where": "prefix", "model": want_keys, "real": fam.keys_of(base)})
        for t in ts:
            ctx = TypeContext(base)
            out, how = fam.apply(ctx, t["op"], t["key"])
            n += 1
            if out != t["out"]:
                violations.append(Violation(
                    clause="Replay." + t["op"],
                    case={"kind": "transition", "prefix": prefix, "op": t["op"], "key": t["key"]},
                    fields={"op": t["op"], "form": t["key"]["f"], "want": t["out"]["f"], "got": out["f"],
                            "how": how},
                    msg=f"model predicts {t['out']} real gave {out} ({how})"))
            want2 = sorted(list(t["stored2"]) + list(t["memo2"]), key=lambda r: (r["b"], r["f"]))
            if fam.keys_of(ctx) != want2 and len(drift) < 50:
                drift.append({"where": t["op"], "key": t["key"], "model": want2, "real": fam.keys_of(ctx)})
    return n, violations, drift


LITERAL_FORMS = ["self", "newtype", "alias", "final", "nt_al", "nt_nt", "fin_nt"]


def random_traces(fam: Family, bases, forms, ntraces, maxlen, rng, tid0=0):
    events, traces = [], {}
    allkeys = [{"b": b, "f": f} for b in bases for f in forms]
    for tid in range(tid0, tid0 + ntraces):
        ctx = _new_ctx()
        stored = []
        ops = []
        events.append({"tid": tid, "op": "reset", "key": NOKEY, "out": NOKEY, "how": "ok", "keys": []})
        # bias: small key sub-pools make collisions between forms of one base likely
        pool = rng.sample(allkeys, rng.randint(3, len(allkeys))) if rng.random() < 0.7 else allkeys
        for _ in range(rng.randint(1, maxlen)):
            r = rng.random()
            if r < 0.25:
                fresh = [k for k in pool if k not in stored]
                if not fresh:
                    continue
                k = rng.choice(fresh); op = "insert"; stored.append(k)
            elif r < 0.6:
                k = rng.choice(pool); op = "getitem"
            elif r < 0.9:
                k = rng.choice(pool); op = "get"
            else:
                if not stored:
                    continue
                k = rng.choice(stored); op = "contains"
            out, how = fam.apply(ctx, op, k)
            ops.append([op, k])
            events.append({"tid": tid, "op": op, "key": k, "out": out, "how": how,
                           "keys": fam.keys_of(ctx)})
        traces[tid] = ops
    return events, traces


def _violations_from_rejects(rejects, events, traces):
    out = []
    for r in rejects:
        e = events[r["rej"] - 1]
        ops = traces.get(e["tid"], [])
        out.append(Violation(
            clause="Trace." + r["clause"],
            case={"kind": "sequence", "ops": ops, "at_event": e},
            fields={"op": e["op"], "form": e["key"]["f"], "want": r["want"]["f"], "got": e["out"]["f"],
                    "how": e["how"]},
            msg=f"event {e} expected {r['want']}"))
    return out


def run(ctx: Ctx) -> Outcome:
    quick = ctx.quick
    rng = random.Random(ctx.seed)
    # 1. model level: complete state spaces, refinement + invariants
    models = [("MC_Context_1.cfg", "1 base x 10 forms"), ("MC_Context_1w.cfg", "1 base x 14 forms (with wrappers of wrappers)"),
              ("MC_Context_2.cfg", "2 bases x 6 forms")]
    if not quick:
        models.append(("MC_Context_3.cfg", "3 bases x 6 forms"))
    states = trans = 0
    model_runs = []
    for cfg, what in models:
        res = tlc.must(tlc.run("Context", cfg, workers=16, timeout=7200), "Context model")
        states += res.distinct; trans += res.generated
        model_runs.append({"cfg": cfg, "what": what, "distinct": res.distinct, "generated": res.generated,
                           "depth": res.depth, "wall_s": round(res.wall_s, 1)})
    # 2. spec -> code: every transition of the full-family one-base model on the real class
    cfg_text = open(tlc.SPEC_DIR + "/MC_Context_1.cfg").read().replace("Emit = FALSE", "Emit = TRUE")
    res = tlc.must(tlc.run("Context", cfg_text=cfg_text, workers=1, timeout=3600), "Context emit")
    transitions = [p for p in res.printed if isinstance(p, dict) and "op" in p]
    if len(transitions) < res.generated - 1:
        raise tlc.MachineryError(f"emitted {len(transitions)} transitions, TLC generated {res.generated}")
    fam = Family(["B1", "B2", "B3", "B4"])
    nrep, v1, drift = replay_transitions(fam, transitions)
    # 3. code -> spec: random histories on the real class validated by the trace spec
    ntr, maxlen = (2000, 40) if quick else (20000, 40)
    events, traces = random_traces(fam, ["B1", "B2", "B3"], FORMS, ntr, maxlen, rng)
    # a base that is a Literal, under the forms that wrap it (Final[Literal[..]], NewType / alias of it, wrappers of those)
    ev4, tr4 = random_traces(fam, ["B4"], LITERAL_FORMS, ntr // 10, 12, rng, tid0=ntr)
    events += ev4; traces.update(tr4)
    tres, rejects = tlc.validate_trace("Context_Trace", "Context_Trace.cfg", events)
    v2 = _violations_from_rejects(rejects, events, traces)
    drift += [p for p in tres.printed if isinstance(p, dict) and "drift" in p][:20]
    nontrivial = len({(tuple((o, k["b"], k["f"]) for o, k in ops)) for ops in traces.values() if len(ops) >= 3})
    cov = {
        "states": states, "transitions": trans,
        "exhaustive": True,
        "traces_validated_against_impl": len(events),
        "transitions_replayed_on_impl": nrep,
        "evaluations": nrep + len(events),
        "distinct_nontrivial": nontrivial + len({(t["op"], t["key"]["f"], tuple(sorted(k["f"] for k in t["stored"])),
                                                  tuple(sorted(k["f"] for k in t["memo"]))) for t in transitions}),
        "rule": "model: complete (stored, memo) state spaces; replay: every transition of the 1-base/10-form "
                "model (distinct by source state, op, key); traces: random operation sequences of length<=40 "
                "over 3 class bases x 14 forms and a Literal base x 7 wrapper forms (incl. NewType over alias / NewType / string alias, Final[NewType]), non-trivial = at least 3 "
                "operations, distinct by operation sequence",
        "model_runs": model_runs,
        "samples": [traces[0], transitions[len(transitions) // 2]],
    }
    return Outcome(
        level="model_checking", coverage=cov, violations=v1 + v2, impl_drift=drift,
        assumptions=["values are identified with the key they were stored under (write-once)",
                     "bases and their aliases are defined in one module, so unwrap() and forwardref() agree on the ForwardRef",
                     "TLC and the CommunityModules JSON reader are trusted"])


def replay(ctx: Ctx, rep: dict) -> Outcome:
    fam = Family(["B1", "B2", "B3", "B4"])
    case = rep["case"]
    ops = case["ops"] if case["kind"] == "sequence" else case["prefix"] + [[case["op"], case["key"]]]
    c = _new_ctx()
    events = [{"tid": 0, "op": "reset", "key": NOKEY, "out": NOKEY, "how": "ok", "keys": []}]
    for op, k in ops:
        out, how = fam.apply(c, op, k)
        events.append({"tid": 0, "op": op, "key": k, "out": out, "how": how, "keys": fam.keys_of(c)})
        print("  ", op, k, "->", out, how)
    _, rejects = tlc.validate_trace("Context_Trace", "Context_Trace.cfg", events)
    v = _violations_from_rejects(rejects, events, {0: ops})
    return Outcome(level="model_checking", coverage={"evaluations": len(events)}, violations=v)
