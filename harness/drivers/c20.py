"""C20 -- annotation rewriting for older interpreters preserves meaning (spec/Future.tla)."""
from __future__ import annotations

import ast
import random
import re
import types
import typing

from .. import tlc
from ..core import Ctx, Outcome, Violation


def to_ast(t):
    k = t["k"]
    if k == "name":
        return ast.Name(id=t["id"], ctx=ast.Load())
    if k == "attr":
        return ast.Attribute(value=to_ast(t["v"]), attr=t["a"], ctx=ast.Load())
    if k == "sub":
        return ast.Subscript(value=to_ast(t["v"]), slice=to_ast(t["sl"]), ctx=ast.Load())
    if k == "tuple":
        return ast.Tuple(elts=[to_ast(x) for x in t["xs"]], ctx=ast.Load())
    if k == "list":
        return ast.List(elts=[to_ast(x) for x in t["xs"]], ctx=ast.Load())
    if k == "bitor":
        return ast.BinOp(left=to_ast(t["l"]), op=ast.BitOr(), right=to_ast(t["r"]))
    if k == "binop":
        return ast.BinOp(left=to_ast(t["l"]), op=ast.Add(), right=to_ast(t["r"]))
    if k == "const":
        # a constant that is no text carries its class in the term's string ("#int:1", "#bool:True", "#float:1.0")
        c = t["c"]
        for tag, conv in (("#int:", int), ("#bool:", lambda x: x == "True"), ("#float:", float)):
            if c.startswith(tag):
                return ast.Constant(value=conv(c[len(tag):]))
        return ast.Constant(value=c)
    if k == "none":
        return ast.Constant(value=None)
    if k == "ell":
        return ast.Constant(value=...)
    if k == "call":
        return ast.Call(func=to_ast(t["f"]), args=[to_ast(x) for x in t["xs"]], keywords=[])
    raise ValueError(k)


def from_ast(n):
    if isinstance(n, ast.Name):
        return {"k": "name", "id": n.id}
    if isinstance(n, ast.Attribute):
        return {"k": "attr", "v": from_ast(n.value), "a": n.attr}
    if isinstance(n, ast.Subscript):
        return {"k": "sub", "v": from_ast(n.value), "sl": from_ast(n.slice)}
    if isinstance(n, ast.Tuple):
        return {"k": "tuple", "xs": [from_ast(x) for x in n.elts]}
    if isinstance(n, ast.List):
        return {"k": "list", "xs": [from_ast(x) for x in n.elts]}
    if isinstance(n, ast.BinOp):
        return {"k": "bitor" if isinstance(n.op, ast.BitOr) else "binop", "l": from_ast(n.left), "r": from_ast(n.right)}
    if isinstance(n, ast.Constant):
        if n.value is None:
            return {"k": "none"}
        if n.value is ...:
            return {"k": "ell"}
        if isinstance(n.value, (bool, int, float)):         # 1, True and 1.0 are equal but different constants
            return {"k": "const", "c": f"#{type(n.value).__name__}:{n.value}"}
        return {"k": "const", "c": str(n.value)}
    if isinstance(n, ast.Call):
        return {"k": "call", "f": from_ast(n.func), "xs": [from_ast(x) for x in n.args]}
    return {"k": "const", "c": "<" + type(n).__name__ + ">"}


def unparse(t) -> str:
    return ast.unparse(ast.fix_missing_locations(ast.Expression(body=to_ast(t))))


def parse(s: str):
    return from_ast(ast.parse(s, mode="eval").body)


def _namespace():
    class Foo:
        def __class_getitem__(cls, item):
            return types.GenericAlias(cls, item if isinstance(item, tuple) else (item,))
    m = types.SimpleNamespace(Foo=Foo)
    ns = {"typing": typing, "Foo": Foo, "m": m, "Literal": typing.Literal, "Annotated": typing.Annotated,
          "Pattern": typing.Pattern, "Union": typing.Union, "Optional": typing.Optional}
    return ns


def struct(t, depth=0):
    """Origin/args structure of an evaluated annotation, unions flattened, typing aliases -> runtime origin."""
    if depth > 20:
        return "deep"
    if t is None:
        t = type(None)
    if isinstance(t, str):
        return ("fwd", t)
    if isinstance(t, typing.ForwardRef):
        return ("fwd", t.__forward_arg__)
    o = typing.get_origin(t)
    if o is typing.Union or o is types.UnionType:
        ms = []
        for a in typing.get_args(t):
            s = struct(a, depth + 1)
            for x in (s[1] if isinstance(s, tuple) and s[0] == "union" else [s]):
                if x not in ms:
                    ms.append(x)
        # typing caches Union[...] objects by ==, which ignores member order: evaluated member order is
        # not reliable, so the evaluated structure compares unions as sets (the AST-level Sem keeps order)
        if len(ms) == 1:
            return ms[0]
        return ("union", sorted(ms, key=repr))
    if o is typing.Literal:
        # (the grammar also puts names into Literal[..]: Literal[dict, typing.Dict] -- members are compared like any other
        # argument, and typing drops duplicates)
        ms = []
        for a in typing.get_args(t):
            x = struct(a, depth + 1) if not isinstance(a, (str, bytes, int, bool, type(None))) else repr(a)
            if x not in ms:
                ms.append(x)
        return ("literal", ms)
    if o is typing.Annotated:
        # (metadata that is a name goes through the same documented rewriting as any other argument: dict ~ typing.Dict)
        return ("annotated", struct(t.__origin__, depth + 1),
                [repr(m) if isinstance(m, (str, bytes, int, float, bool, type(None))) else struct(m, depth + 1) for m in t.__metadata__])
    if o is None:
        if isinstance(t, (tuple, list)):
            return (type(t).__name__, [struct(a, depth + 1) for a in t])
        return repr(t)
    args = typing.get_args(t)
    if not args:
        return repr(o)          # bare typing.Dict has origin dict: same structure as bare dict
    return (repr(o), [struct(a, depth + 1) for a in args])


def observe(term, ns):
    from typelib.py import future
    src = unparse(term)
    ev = {"ein": parse(src), "eout": {"k": "none"}, "eout2": {"k": "none"}, "evaleq": "n/a", "raised": "", "src": src,
          "out": ""}
    try:
        out = future.transform(src)
        out2 = future.transform(out)
        ev["out"] = out
        ev["eout"], ev["eout2"] = parse(out), parse(out2)
    except Exception as e:
        ev["raised"] = type(e).__name__
        return ev
    try:
        a = eval(src, dict(ns))
        b = eval(out, dict(ns))
        ev["evaleq"] = "equal" if struct(a) == struct(b) else "differ"
    except Exception:
        ev["evaleq"] = "n/a"
    return ev


def _slim(e):
    return {k: e[k] for k in ("ein", "eout", "eout2", "evaleq", "raised")}


def extra_expressions(rng, n):
    """Hand-shaped families beyond the TLC grammar: long chains in every parenthesisation, Callable,
    Annotated, Literal with '|' and '[' inside strings, arithmetic and calls (identity only)."""
    names = ["int", "str", "None", "dict", "list[int]", "Foo", "m.Foo", "'Fwd'", "tuple[int, ...]", "set[str]"]
    out = ["Literal['a|b', 'x[y]'] | None", "Annotated[int | str, 'm|n']", "typing.Callable[[int | str], dict]",
           "typing.Callable[..., list | None]", "dict[str, list[int | None]] | None", "1 + 2", "f(x)", "a.b.c",
           "Pattern | None", "tuple[int | str, ...]", "Literal['two  blanks', 'tab\\tbed'] | None", "Annotated[int | str, ' padded  meta ']",
           "dict[str, Literal['a\\nb']] | None", "Literal['x   y']",
           # members that differ only by constants which compare equal (1 == True == 1.0)
           "Literal[1] | Literal[True]", "list[Literal[True]] | list[Literal[1]]", "Literal[0] | Literal[False] | None",
           "Literal[1] | Literal[1.0] | int", "int | str | int", "Foo[1] | Foo[True]", "Foo[int | None, dict]", "x + y * 2", "int", "typing.Dict[str, int]"]
    leaves = ["int", "str", "None", "dict", "list", "tuple", "set", "Foo", "m.Foo", "'F|wd'", "...", "Pattern", "'two  blanks'"]
    heads = ["list", "dict", "tuple", "set", "Foo", "Annotated", "typing.Callable", "typing.Optional", "typing.Union",
             "Literal", "typing.Dict", "m.Foo"]

    def gen(d):
        r = rng.random()
        if d == 0 or r < 0.2:
            return rng.choice(leaves)
        if r < 0.45:
            return f"{gen(d - 1)} | {gen(d - 1)}"
        h = rng.choice(heads)
        if h == "Annotated":
            return f"Annotated[{gen(d - 1)}, 'meta|x']"
        if h == "typing.Callable":
            return f"typing.Callable[[{gen(d - 1)}, {gen(d - 1)}], {gen(d - 1)}]"
        if h == "Literal":
            return "Literal['a|b', 'x[y]']"
        k = rng.randint(1, 3)
        return f"{h}[{', '.join(gen(d - 1) for _ in range(k))}]"
    for _ in range(n * 4):
        out.append(gen(rng.randint(2, 5)))
    for _ in range(n):
        k = rng.randint(2, 5)
        parts = [rng.choice(names) for _ in range(k)]
        # random parenthesisation
        while len(parts) > 1:
            i = rng.randrange(len(parts) - 1)
            parts[i:i + 2] = [f"({parts[i]} | {parts[i + 1]})"]
        out.append(parts[0])
    return out


def run(ctx: Ctx) -> Outcome:
    quick = ctx.quick
    rng = random.Random(ctx.seed)
    base = open(tlc.SPEC_DIR + "/MC_Future.cfg").read()
    res = tlc.must(tlc.run("Future", cfg_text=base, workers=8), "Future model depth 2 small")
    states, trans = res.distinct, res.generated
    r2 = tlc.must(tlc.run("Future", cfg_text=base.replace("Depth = 2", "Depth = 1").replace('"small"', '"full"'),
                          workers=8), "Future model depth 1 full")
    states += r2.distinct; trans += r2.generated
    if not quick:
        # (staged: TLC computes initial states with one thread -- 0.76 M terms as initial states took 45 min, staged 20 s)
        r3 = tlc.must(tlc.run("Future", cfg_text=base.replace('"small"', '"full"').replace("SPECIFICATION Spec", "SPECIFICATION SpecStaged"),
                              workers=16, timeout=7200), "Future model depth 2 full")
        states += r3.distinct; trans += r3.generated
    emit_cfgs = [base.replace("Emit = FALSE", "Emit = TRUE"),
                 base.replace("Emit = FALSE", "Emit = TRUE").replace("Depth = 2", "Depth = 1").replace('"small"', '"full"')]
    terms = []
    for c in emit_cfgs:
        r = tlc.must(tlc.run("Future", cfg_text=c, workers=1, timeout=3600), "Future emit")
        terms += [p for p in r.printed if isinstance(p, dict) and "k" in p]
    if not quick:
        # a sample of the depth-2 universe over the full leaf set goes through the real code as well
        r = tlc.must(tlc.run("Future", cfg_text=base.replace("Emit = FALSE", "Emit = TRUE").replace('"small"', '"full"')
                             .replace("SPECIFICATION Spec", "SPECIFICATION SpecStaged"), workers=1, timeout=7200), "Future emit depth 2 full")
        big = [p for p in r.printed if isinstance(p, dict) and "k" in p]
        terms += rng.sample(big, min(len(big), 60000))
    ns = _namespace()
    # history: some annotations are first asked for from the bottom of a deep call stack (a recursive visitor, a framework's
    # nested middleware): whatever happens to such a call, what the annotation is rewritten to afterwards may not depend on it
    from typelib.py import future as _future

    def _from_the_deep(src):
        def down():
            try:
                down()
            except RecursionError:
                try:
                    _future.transform(src)
                except RecursionError:
                    pass
                raise
        try:
            down()
        except RecursionError:
            pass
    for t in rng.sample(terms, min(len(terms), 40)):
        _from_the_deep(unparse(t))
    events = [observe(t, ns) for t in terms]
    for src in extra_expressions(rng, 300 if quick else 5000):
        try:
            t = parse(src)
        except SyntaxError:
            continue
        events.append(observe(t, ns))
    # audit: term -> source -> term is the identity on the emitted universe
    bad = [e["src"] for e, t in zip(events, terms) if e["ein"] != t]
    if bad:
        raise tlc.MachineryError(f"unparse/parse is not the identity on {len(bad)} emitted terms, e.g. {bad[0]}")
    tres, rejects = tlc.validate_trace("Future_Trace", "Future_Trace.cfg", [_slim(e) for e in events], timeout=3600)
    viol = []
    for r in rejects:
        e = events[r["rej"] - 1]
        viol.append(Violation(clause="Future." + r["clause"], case={"src": e["src"]},
                              fields={"has_bitor": "|" in re.sub(r"'[^']*'", "", e["src"]), "raised": e["raised"]},
                              msg=f"{e['src']!r} -> {e['out']!r}"))
    drift = [{"src": events[p["drift"] - 1]["src"], "out": events[p["drift"] - 1]["out"]}
             for p in tres.printed if isinstance(p, dict) and "drift" in p][:20]
    nontrivial = {e["src"] for e in events if e["src"] != e["out"]}
    cov = {"states": states, "transitions": trans, "exhaustive": True,
           "traces_validated_against_impl": len(events), "evaluations": len(events),
           "distinct_nontrivial": len(nontrivial),
           "evaluated_both_sides": sum(1 for e in events if e["evaleq"] != "n/a"),
           "rule": "every AST of the grammar to depth 2 over the small leaf set and depth 1 over the full leaf set, emitted by "
                   "TLC, unparsed, transformed twice by the real code and parsed back; plus seeded random |-chains in random "
                   "parenthesisation and hand-shaped families; non-trivial = output differs from input",
           "samples": [{"src": e["src"], "out": e["out"], "evaleq": e["evaleq"]} for e in events[1000:1003]]}
    return Outcome(level="model_checking", coverage=cov, violations=viol, impl_drift=drift,
                   assumptions=["meaning = Sem (TLA+) on the ASTs and, where both strings evaluate, origin/args structure in Python",
                                "for non-annotation expressions only identity-when-nothing-to-do and the fixpoint are asserted"])


def replay(ctx: Ctx, rep: dict) -> Outcome:
    ev = observe(parse(rep["case"]["src"]), _namespace())
    print("  ", ev["src"], "->", ev["out"], ev["evaleq"])
    _, rejects = tlc.validate_trace("Future_Trace", "Future_Trace.cfg", [_slim(ev)])
    v = [Violation(clause="Future." + r["clause"], case={"src": ev["src"]}, fields={}, msg=ev["out"]) for r in rejects]
    return Outcome(level="model_checking", coverage={"evaluations": 1}, violations=v)
