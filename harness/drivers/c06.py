"""C06 -- marshalled output is plain JSON-compatible data, freshly built (spec/Wire.tla IsWire)."""
from __future__ import annotations

import collections
import datetime
import json
import random
import warnings

from .. import tlc, valuestream as vs
from ..core import Ctx, Outcome, Violation
from ..terms import clear_typelib_caches, project, vkey
from ..typeterms import lit_value, values
from .c01 import union_sigs
from .c03 import shape
from .c01 import composite_key, composite_key_in_union


class MyInt(int):
    pass


class MyStr(str):
    pass


class MyList(list):
    pass


def widen(v, depth=0):
    """A valid value rebuilt from subclass instances (str/int/list subclasses, OrderedDict, pendulum temporals)."""
    import pendulum
    if depth > 8 or v is None or isinstance(v, bool):
        return v
    if type(v) is int:
        return MyInt(v)
    if type(v) is str:
        return MyStr(v)
    if type(v) is list:
        return MyList(widen(x, depth + 1) for x in v)
    if type(v) is tuple:
        return tuple(widen(x, depth + 1) for x in v)
    if type(v) is dict:
        return collections.OrderedDict((widen(k, depth + 1) if type(k) is str else k, widen(x, depth + 1)) for k, x in v.items())
    if type(v) is datetime.datetime and v.tzinfo is not None and 1 < v.year < 9999:
        return pendulum.instance(v)
    if type(v) is datetime.date:
        return pendulum.date(v.year, v.month, v.day)
    if type(v) is datetime.timedelta and abs(v) < datetime.timedelta(days=10**6):
        return pendulum.duration(days=v.days, seconds=v.seconds, microseconds=v.microseconds)
    return v


def mutable_ids(x, acc=None, depth=0):
    acc = set() if acc is None else acc
    if depth > 30:
        return acc
    if isinstance(x, (list, dict, set, bytearray, collections.deque)):
        if id(x) in acc:
            return acc
        acc.add(id(x))
    if isinstance(x, dict):
        for k, v in x.items():
            mutable_ids(k, acc, depth + 1); mutable_ids(v, acc, depth + 1)
    elif isinstance(x, (list, tuple, set, frozenset, collections.deque)):
        for v in x:
            mutable_ids(v, acc, depth + 1)
    elif hasattr(x, "__dict__") and not isinstance(x, type):
        for v in vars(x).values():
            mutable_ids(v, acc, depth + 1)
    elif hasattr(type(x), "__slots__") and not isinstance(x, (str, bytes, int, float)):
        for s in getattr(type(x), "__slots__", ()):
            if hasattr(x, s):
                mutable_ids(getattr(x, s), acc, depth + 1)
    return acc


def bad_key_owner(T, w, defs, depth=0):
    """Kind of type ('cls' / 'map' / '?') owning the first dict in wire term w that has a non-primitive-exact key."""
    prim = {"none": "NoneType", "bool": "bool", "int": "int", "float": "float", "str": "str"}
    while T.get("k") in ("newtype", "alias", "salias", "final", "classvar", "noinit", "annotated"):
        T = T["a"]
    if depth > 20 or not isinstance(w, dict):
        return ""
    if T.get("k") == "union":
        rs = [r for r in (bad_key_owner(m, w, defs, depth + 1) for m in T["xs"]) if r]
        # a member whose structure does not fit the value can only answer "any": prefer the member that does fit
        return next((r for r in rs if r not in ("any", "?")), rs[0] if rs else "")
    if w.get("k") == "dict" and T.get("k") not in ("map", "cls", "any"):
        return ""
    if w.get("k") == "dict":
        if any(prim.get(kv[0].get("k")) != kv[0].get("cls") for kv in w["kv"]):
            return T.get("k", "?")
        for kv in w["kv"]:
            if T.get("k") == "map":
                sub = T["va"]
            elif T.get("k") == "cls":
                sub = next((f[1] for f in defs[T["c"]]["fields"] if f[0] == kv[0].get("s")), {"k": "any"})
            else:
                sub = {"k": "any"}
            r = bad_key_owner(sub, kv[1], defs, depth + 1)
            if r:
                return r
    elif w.get("k") == "list":
        for i, x in enumerate(w["xs"]):
            if T.get("k") == "coll":
                sub = T["a"]
            elif T.get("k") == "tup" and i < len(T["xs"]):
                sub = T["xs"][i]
            else:
                sub = {"k": "any"}
            r = bad_key_owner(sub, x, defs, depth + 1)
            if r:
                return r
    return ""


def defaulting(v):
    """The value with every plain dict in it (through lists and tuples) rebuilt as a collections.defaultdict: a mapping that
    *inserts* a key when an absent one is looked up with [] -- reading the caller's value must not change it.  None if the value
    holds no dict."""
    found = [False]

    def go(x):
        if type(x) is dict:
            found[0] = True
            return collections.defaultdict(list, {k: go(y) for k, y in x.items()})
        if type(x) is list:
            return [go(y) for y in x]
        if type(x) is tuple:
            return tuple(go(y) for y in x)
        return x
    out = go(v)
    return out if found[0] else None


def opt_litreject(profile: str):
    """Run in an interpreter started with -O: a value that is no member of a Literal is rejected there as well."""
    import typelib
    defs, types, _ = vs.universe(profile)
    env = vs.make_env(defs)
    warnings.simplefilter("ignore")
    events, meta = [], []
    for T in types:
        if T["k"] != "lit":
            continue
        M = typelib.marshaller(env.annotation(T))
        members = [lit_value(x) for x in T["vs"]]
        for nm in ("zz", 99, None, 2.5):
            if any(nm == m and type(nm) is type(m) for m in members) or nm in members:
                continue
            w, _ = vs.out_of(M, nm)
            events.append({"ev": "litreject", "T": T, "w": w})
            meta.append(("nonmember under python -O", repr(nm)))
    return {"events": events, "meta": meta, "optimized": not __debug__}


def _opt_child(profile: str):
    import subprocess
    import sys
    verif = __file__.rsplit("/harness/", 1)[0]
    code = (f"import sys, json; sys.path.insert(0, {verif!r}); from harness.drivers import c06; "
            f"print('@@OPT@@' + json.dumps(c06.opt_litreject({profile!r})))")
    p = subprocess.run([sys.executable, "-O", "-B", "-c", code], capture_output=True, text=True, timeout=1800)
    line = next((ln for ln in p.stdout.splitlines() if ln.startswith("@@OPT@@")), None)
    if line is None:
        raise tlc.MachineryError("optimised-interpreter pass failed: " + (p.stderr or p.stdout)[-400:])
    out = json.loads(line[7:])
    if not out["optimized"]:
        raise tlc.MachineryError("the -O child did not run optimised")
    return out


DEFS: list = [None]


def collect(ctx: Ctx, profile: str):
    import typelib
    rng = random.Random(ctx.seed)
    defs, types, model = vs.universe(profile)
    DEFS[0] = defs
    env = vs.make_env(defs)
    warnings.simplefilter("ignore")
    clear_typelib_caches()
    events, meta = [], []
    for T in types:
        ann = env.annotation(T)
        if union_sigs(T, defs):
            clear_typelib_caches()
        try:
            M = typelib.marshaller(ann)
        except Exception as e:      # a type whose marshaller cannot even be built: every value's marshal "raised"
            exc = e
            def M(v, _e=exc):
                raise _e
        vals = []
        for v in values(T, env, rng, 3):
            vals.append(("plain", v))
            w = widen(v)
            if vkey(w) != vkey(v):
                vals.append(("widened", w))
            d = defaulting(v)
            if d is not None:
                vals.append(("defaulting", d))
        first = []
        for kind, v in vals:
            before = vkey(v)
            w, wv = vs.out_of(M, v)
            again, _ = vs.out_of(M, v)
            # the one-shot entry point, with the annotation spelled anew (a fresh object) for the call: the same outcome
            ww, _ = vs.out_of(typelib.marshal, v, t=env.annotation(T))
            ev = {"ev": "marshal", "T": T, "w": w, "json_ok": True, "again": again == w, "shared": 0, "intact": vkey(v) == before,
                  "wrapper": ww == w}
            if w["k"] == "ok":
                try:
                    json.dumps(wv)
                except Exception:
                    ev["json_ok"] = False
                ev["shared"] = len(mutable_ids(v) & mutable_ids(wv))
            first.append((ev, v))
        # determinism across the history of the routine: every value once more, after all others were seen
        for (ev, v), (kind, _) in zip(first, vals):
            later, _ = vs.out_of(M, v)
            if later != ev["w"]:
                ev["again"] = False
            events.append(ev)
            meta.append((kind, repr(v)[:100]))
        if T["k"] == "lit":
            members = [lit_value(x) for x in T["vs"]]
            for nm in ("zz", 99, None, 2.5):
                if any(nm == m and type(nm) is type(m) for m in members) or nm in members:
                    continue
                w, _ = vs.out_of(M, nm)
                ww, _ = vs.out_of(typelib.marshal, nm, t=env.annotation(T))
                if ww != w:
                    w = {"k": "ok", "r": {"k": "str", "cls": "str", "s": "marshal() and marshaller() disagree"}}
                events.append({"ev": "litreject", "T": T, "w": w})
                meta.append(("nonmember", repr(nm)))
    opt = _opt_child(profile)
    events += opt["events"]
    meta += [tuple(m) for m in opt["meta"]]
    # passive source: every marshal() call the repository's own test suite makes (bytes-like outputs are outside C06)
    from .. import suite
    for m in suite.record()["marshal"]:
        if not m["byteslike"]:
            events.append(m["event"])
            meta.append(("suite", f"{m['t']} {m['value']}"[:100]))
    return events, meta, model, len(types)


def _violations(rejects, events, meta):
    out = []
    for r in rejects:
        e = events[r["rej"] - 1]
        m = meta[r["rej"] - 1]
        out.append(Violation(
            clause=r["clause"], case={"T": e["T"], "value_kind": m[0], "value_repr": m[1]},
            fields={"root_shape": shape(e["T"]), "value_kind": m[0], "raised": e["w"].get("e", ""),
                    "leaf_clause": ".".join(r["clause"].split(".")[-2:]),
                    "bad_key_owner": bad_key_owner(e["T"], e["w"].get("r", {}), DEFS[0]) if "dict.key" in r["clause"] else "",
                    "composite_key": composite_key(e["T"], DEFS[0]) if e["T"].get("k") != "any" else False,
                    "composite_key_in_union": composite_key_in_union(e["T"], DEFS[0]) if e["T"].get("k") != "any" else False},
            msg=f"T={json.dumps(e['T'])[:140]} v={m[1]} ({m[0]}) -> {json.dumps(e['w'])[:200]}"))
    return out


def run(ctx: Ctx) -> Outcome:
    profile = "quick" if ctx.quick else "full"
    events, meta, model, ntypes = collect(ctx, profile)
    tres, rejects = tlc.validate_trace("Wire_Trace", "Wire_Trace.cfg", events, timeout=7200)
    viol = _violations(rejects, events, meta)
    nontrivial = {(json.dumps(e["T"], sort_keys=True), m[1]) for e, m in zip(events, meta)
                  if e["w"]["k"] == "ok" and e["w"]["r"]["k"] in ("list", "dict")}
    cov = {"states": model.distinct, "transitions": model.generated, "exhaustive": True,
           "traces_validated_against_impl": len(events), "evaluations": len(events),
           "distinct_nontrivial": len(nontrivial), "types": ntypes,
           "widened_values": sum(1 for m in meta if m[0] == "widened"),
           "rule": "every type of the TLC universe x pool values, each also rebuilt from subclass instances (int/str/list subclasses, "
                   "OrderedDict, pendulum temporals); marshalled three times (twice in a row, once after all other values); TLC checks "
                   "IsWire on the projected output with exact classes; non-trivial = container output, distinct by (type, value)",
           "samples": [events[len(events) // 3], events[len(events) // 2]]}
    return Outcome(level="model_checking", coverage=cov, violations=viol,
                   assumptions=["shared-container counts and the json.dumps verdict are measured by the harness and only asserted by TLC",
                                "the universe has no bytes-like members and no Any/bare generics (pass-through by contract)"])


def replay(ctx: Ctx, rep: dict) -> Outcome:
    c = rep["case"]
    ctx2 = Ctx(pid="C06", tier="quick", seed=ctx.seed)
    events, meta, _, _ = collect(ctx2, "quick")
    key = json.dumps(c["T"], sort_keys=True)
    sel = [(e, m) for e, m in zip(events, meta) if json.dumps(e["T"], sort_keys=True) == key]
    ev = [e for e, _ in sel]
    for e, m in sel:
        print("  ", m, "->", json.dumps(e["w"])[:200], {k: e.get(k) for k in ("json_ok", "again", "shared", "intact")})
    _, rejects = tlc.validate_trace("Wire_Trace", "Wire_Trace.cfg", ev)
    return Outcome(level="model_checking", coverage={"evaluations": len(ev)}, violations=_violations(rejects, ev, [m for _, m in sel]))
