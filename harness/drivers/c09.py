"""C09 -- the type graph is a complete dependency order with every cycle cut (spec/Graph.tla)."""
from __future__ import annotations

import json
import random
import typing
import warnings

from .. import tlc, valuestream as vs
from ..core import Ctx, Outcome, Violation
from ..terms import Deadline, clear_typelib_caches, with_deadline
from ..typeterms import Env

P = lambda n: {"k": "prim", "n": n}          # noqa: E731
NONE = P("NoneType")


def field_type(ft):
    kind, i = ft
    c = {"k": "cls", "c": f"C{i}"}
    return {"S": P("int"), "cls": c, "direct": c,
            "opt": {"k": "union", "sp": "Optional", "xs": [c, NONE]},
            "list": {"k": "coll", "c": "list", "sp": "builtin", "a": c},
            "dict": {"k": "map", "c": "dict", "sp": "builtin", "ka": P("str"), "va": c},
            "tupv": {"k": "coll", "c": "tuple", "sp": "builtin", "a": c}}[kind]


def topo_defs(topo, variant):
    """Abstract topology -> class table.  variant spreads classes over modules / flavours."""
    flavours = ["dataclass", "namedtuple", "dc_slots", "plain"]
    defs = {}
    for i, fields in enumerate(topo, 1):
        defs[f"C{i}"] = {"flavour": flavours[(variant + i) % len(flavours)] if variant else "dataclass",
                         "module": "m1" if variant % 2 == 0 or i == 1 else "m2", "py": f"C{i}",
                         "fields": [[f"f{j}", field_type(ft), False] for j, ft in enumerate(fields, 1)]}
    return defs


class Ids:
    def __init__(self):
        self.objs = []

    def id(self, o):
        if o is None:
            o = type(None)            # None and NoneType are one type (typing writes either)
        for i, x in enumerate(self.objs):
            try:
                if x == o:        # the graph itself identifies annotations with == (typing.Union[A, B] == A | B)
                    return f"t{i}"
            except Exception:
                pass
            if x is o:
                return f"t{i}"
        self.objs.append(o)
        return f"t{len(self.objs) - 1}"


def std_members(o):
    """Direct members of an (unwrapped) annotation, from the standard library only."""
    if isinstance(o, typing.ForwardRef) or o is None or o is type(None):
        return []
    origin = typing.get_origin(o)
    if origin is typing.Literal:
        return []
    args = [a for a in typing.get_args(o) if a is not ...]
    if origin is not None:
        return [a for a in args if a is not typing.Any]
    if isinstance(o, type) and getattr(o, "__module__", "").startswith("verif_"):
        try:
            hints = typing.get_type_hints(o)
        except Exception:
            return []
        return [h for h in hints.values() if h is not typing.Any]
    return []


def std_unwrap(o):
    seen = 0
    while seen < 10:
        seen += 1
        if typing.get_origin(o) in (typing.Final, typing.ClassVar) and typing.get_args(o):
            o = typing.get_args(o)[0]
        elif isinstance(o, typing.TypeAliasType):
            if isinstance(o.__value__, str):
                return o
            o = o.__value__
        elif hasattr(o, "__supertype__"):
            o = o.__supertype__
        else:
            break
    return type(None) if o is None else o      # typing writes NoneType as None inside aliases and NewTypes


def unwrap_stages(o):
    """Every stage of peeling o, one wrapper at a time (Final/ClassVar argument, alias value -- a string body is
    evaluated in the alias's module --, NewType supertype), o itself first."""
    import sys
    out = [o]
    for _ in range(12):
        if typing.get_origin(o) in (typing.Final, typing.ClassVar) and typing.get_args(o):
            o = typing.get_args(o)[0]
        elif isinstance(o, typing.TypeAliasType):
            v = o.__value__
            if isinstance(v, str):
                try:
                    v = eval(v, dict(vars(sys.modules[o.__module__])))
                except Exception:
                    break
            o = v
        elif hasattr(o, "__supertype__"):
            o = o.__supertype__
        else:
            break
        out.append(type(None) if o is None else o)
    return out


def full_unwrap(o):
    """std_unwrap that also follows string-valued aliases (body evaluated in the alias's own module, stdlib only)."""
    import sys
    for _ in range(10):
        o = std_unwrap(o)
        if isinstance(o, typing.TypeAliasType) and isinstance(o.__value__, str):
            try:
                o = eval(o.__value__, dict(vars(sys.modules[o.__module__])))
            except Exception:
                return o
        else:
            return o
    return o


def observe(root, env, variants=()):
    from typelib import graph
    from typelib.py import refs
    ids = Ids()
    ev = {"nodes": [], "root": ids.id(root), "rootu": ids.id(std_unwrap(root)), "members": {"-": []}, "salias": [],
          "equiv": [], "raised": ""}
    try:
        seq = list(with_deadline(10, graph.static_order, root))
    except Deadline:
        ev["raised"] = "NonTermination"
        return ev
    except RecursionError:
        ev["raised"] = "RecursionError"
        return ev
    except Exception as e:
        ev["raised"] = type(e).__name__
        return ev

    def note_members(o):
        i = ids.id(o)
        if i not in ev["members"]:
            ev["members"][i] = []
            ev["members"][i] = [ids.id(m) for m in std_members(o)]
        return i

    def proj(seq_):
        out = []
        for n in seq_:
            t, u = n.type, n.unwrapped
            den = denu = uden = "-"
            dstages = []
            if n.cyclic or isinstance(t, typing.ForwardRef) or isinstance(u, typing.ForwardRef):
                try:
                    tgt = t if not isinstance(t, typing.ForwardRef) else refs.evaluate(t)
                    if isinstance(u, typing.ForwardRef) and not isinstance(t, typing.ForwardRef) and not n.cyclic:
                        tgt = refs.evaluate(u)          # a string alias's own (non-deferred) node: what its body denotes
                    den = note_members(std_unwrap(tgt)) if not n.cyclic else ids.id(tgt)
                    if n.cyclic:
                        note_members(tgt)
                        # what the deferred node stands for, unwrapped with typing only, and what its own
                        # `unwrapped` attribute evaluates to
                        denu = note_members(full_unwrap(tgt))
                        uden = ids.id(refs.evaluate(u) if isinstance(u, typing.ForwardRef) else u)
                        dstages = [ids.id(x) for x in unwrap_stages(tgt)]
                except Exception:
                    den = "unresolvable"
            if isinstance(t, typing.TypeAliasType) and isinstance(t.__value__, str) and ids.id(t) not in ev["salias"]:
                ev["salias"].append(ids.id(t))
            su = std_unwrap(t)
            out.append({"t": ids.id(t), "u": note_members(u) if not isinstance(u, typing.ForwardRef) else ids.id(u),
                        "su": note_members(su) if not isinstance(su, (typing.ForwardRef, typing.TypeAliasType)) else ids.id(su),
                        "var": n.var or "", "cyc": bool(n.cyclic), "ref": isinstance(t, typing.ForwardRef),
                        "uref": isinstance(u, typing.ForwardRef), "den": den, "denu": denu, "uden": uden, "dstages": dstages,
                        # identity of the declared type as an object (None and NoneType are two objects naming one type)
                        "tr": ids.id(t) + ("#None" if t is None else "")})
        return out
    ev["nodes"] = proj(seq)
    body = [(n["t"], n["u"], n["var"], n["cyc"]) for n in ev["nodes"][:-1]]
    for name, alt in variants:
        try:
            s2 = proj(list(with_deadline(10, graph.static_order, alt)))
            same = [(n["t"], n["u"], n["var"], n["cyc"]) for n in s2[:-1]] == body and bool(s2) and s2[-1]["u"] in (ev["nodes"][-1]["u"], ev["rootu"])
        except (Exception, Deadline) as e:
            same = False
            name += ":" + type(e).__name__
        ev["equiv"].append({"how": name, "same": same})
    return ev


def root_variants(env, ann, home_mod, k):
    """Equivalent spellings of one root: memoised second call, NewType, value alias, ForwardRef / string by name."""
    out = [("memoised", ann)]
    name = f"RV{k}"
    ns = home_mod.__dict__
    ns[name] = ann
    out.append(("newtype", typing.NewType(name + "N", ann)))
    out.append(("alias", typing.TypeAliasType(name + "A", ann)))
    out.append(("forwardref", typing.ForwardRef(name, module=home_mod.__name__)))
    return out


def run(ctx: Ctx) -> Outcome:
    quick = ctx.quick
    rng = random.Random(ctx.seed)
    warnings.simplefilter("ignore")
    base = open(tlc.SPEC_DIR + "/MC_Graph.cfg").read()
    small = base.replace('{"opt", "list", "dict", "tupv", "direct"}', '{"opt", "list", "direct"}')
    res = tlc.must(tlc.run("Graph", cfg_text=small if quick else base, workers=16, timeout=7200), "Graph model")
    states, trans = res.distinct, res.generated
    if not quick:
        r3 = tlc.must(tlc.run("Graph", cfg_text=base.replace("NClasses = 2", "NClasses = 3").replace("MaxFields = 2", "MaxFields = 1"),
                              workers=16, timeout=7200), "Graph model 3 classes")
        states += r3.distinct; trans += r3.generated
    for bad, inv in (("MC_Graph_expand.cfg", "Acyclic"), ("MC_Graph_pinned.cfg", "DeferredDenotesExactly")):
        txt = open(tlc.SPEC_DIR + "/" + bad).read().replace('{"opt", "list", "dict", "tupv", "direct"}', '{"opt", "list", "direct"}')
        r = tlc.run("Graph", cfg_text=txt, workers=4)
        if r.ok or inv not in r.stdout:
            raise tlc.MachineryError(f"Graph model not sensitive: {bad} must violate {inv}")
    ecfg = (small if quick else base).replace("Emit = FALSE", "Emit = TRUE").replace("PROPERTY Terminates\n", "")
    em = tlc.must(tlc.run("Graph", cfg_text=ecfg, workers=1, timeout=7200), "Graph emit")
    cases = [p for p in em.printed if isinstance(p, dict) and "topo" in p]
    if quick:
        cases = rng.sample(cases, min(len(cases), 4000))
    events, meta = [], []
    by_topo: dict = {}
    for c in cases:
        by_topo.setdefault(json.dumps(c["topo"]), []).append(c)
    clear_typelib_caches()
    k = 0
    for ti, (tkey, cs) in enumerate(by_topo.items()):
        topo = json.loads(tkey)
        variant = ti % 5
        defs = topo_defs(topo, variant)
        env = Env(defs, tag="g")
        env.build(None, "m1")
        for c in cs:
            rt = field_type(c["root"])
            ann = env.annotation(rt)
            k += 1
            variants = root_variants(env, ann, env.modules["m1"], k) if k % 7 == 0 else [("memoised", ann)]
            ev = observe(ann, env, variants)
            events.append(ev)
            meta.append({"topo": topo, "root": c["root"], "variant": variant, "model_nodes": c["nnodes"], "model_deferred": c["ndeferred"]})
        env.dispose()
    # the value universe as roots, too
    defs, types, _ = vs.universe("quick" if quick else "full")
    uenv = vs.make_env(defs)
    for T in types:
        ann = uenv.annotation(T)
        events.append(observe(ann, uenv, [("memoised", ann)]))
        meta.append({"T": T})
    # late definitions: a class is first walked while one of its field types does not exist yet; once the
    # module is complete, the graph of every root containing the class must be complete as well
    import sys, types as pytypes
    from typelib import graph
    for shape, expr in (("direct", "Child"), ("opt", "typing.Optional[Child]"), ("list", "list[Child]"), ("dict", "dict[str, Child]")):
        name = f"verif_late_{shape}"
        mod = pytypes.ModuleType(name)
        sys.modules[name] = mod
        exec(compile("import dataclasses, decimal, typing\n@dataclasses.dataclass\nclass Parent:\n    n: int\n"
                     f"    child: {expr!r}\n", name, "exec", dont_inherit=True), mod.__dict__)
        try:
            with_deadline(10, graph.static_order, list[mod.Parent])       # Child is not defined yet
        except BaseException:
            pass
        exec(compile("@dataclasses.dataclass\nclass Child:\n    v: decimal.Decimal\n    back: 'typing.Optional[Parent]' = None\n",
                     name, "exec", dont_inherit=True), mod.__dict__)
        for rname, root in (("Parent", mod.Parent), ("dict[str,Parent]", dict[str, mod.Parent]), ("Child", mod.Child)):
            events.append(observe(root, None, [("memoised", root)]))
            meta.append({"late": shape, "root": rname})
    # a module replaced by another module object of the same name (a reload, a plugin loaded twice): the graph of the new
    # module's class is about the new class -- what a deferred node denotes is evaluated where the class lives *now*
    name = "verif_reloaded"
    for gen, vt in ((1, "int"), (2, "decimal.Decimal"), (3, "str")):
        mod = pytypes.ModuleType(name)
        sys.modules[name] = mod
        exec(compile("import dataclasses, decimal, typing\n@dataclasses.dataclass\nclass Node:\n"
                     f"    v: {vt}\n    nxt: 'typing.Optional[Node]' = None\n    kids: 'list[Node]' = dataclasses.field(default_factory=list)\n",
                     name, "exec", dont_inherit=True), mod.__dict__)
        for rname, root in (("Node", mod.Node), ("list[Node]", list[mod.Node])):
            events.append(observe(root, None, [("memoised", root)]))
            meta.append({"late": "reload", "root": f"{rname} generation {gen}"})
    sys.modules.pop(name, None)
    # passive source: every root the repository's own test suite hands to static_order (recorded by a pytest plugin)
    from .. import suite
    rec = suite.record()
    for g in rec["graph"]:
        events.append(g["event"])
        meta.append({"suite_root": g["root"]})
    nsuite = len(rec["graph"])
    slim = [{kk: e[kk] for kk in ("nodes", "root", "rootu", "members", "salias", "equiv", "raised")} for e in events]
    tres, rejects = tlc.validate_trace("Graph_Trace", "Graph_Trace.cfg", slim, timeout=7200)
    viol = []
    for r in rejects:
        e, m = events[r["rej"] - 1], meta[r["rej"] - 1]
        kinds = sorted({ft[0] for fs in m.get("topo", []) for ft in fs})
        viol.append(Violation(clause="Graph." + r["clause"], case=m,
                              fields={"raised": e["raised"], "source": "topology" if "topo" in m else "late_definition" if "late" in m else "suite" if "suite_root" in m else "universe",
                                      "kinds": kinds, "failed_variants": [x["how"] for x in e["equiv"] if not x["same"]]},
                              msg=f"{json.dumps(m)[:200]} nodes={json.dumps(e['nodes'])[:300]} equiv={e['equiv']}"))
    # impl drift: node counts of the model vs the real graph (spec -> code)
    drift = []
    for e, m in zip(events, meta):
        if "topo" in m and not e["raised"] and (len(e["nodes"]) != m["model_nodes"] or sum(n["cyc"] for n in e["nodes"]) != m["model_deferred"]):
            if len(drift) < 20:
                drift.append({"case": m, "real_nodes": len(e["nodes"]), "real_deferred": sum(n["cyc"] for n in e["nodes"])})
    nontrivial = {json.dumps(m, sort_keys=True) for e, m in zip(events, meta) if any(n["cyc"] for n in e["nodes"])}
    cov = {"states": states, "transitions": trans, "exhaustive": True,
           "traces_validated_against_impl": len(events), "evaluations": len(events),
           "distinct_nontrivial": len(nontrivial), "topology_cases": len(cases), "universe_roots": len(types),
           "suite_roots": nsuite, "suite_summary": rec.get("suite_summary", ""),
           "rule": "model: every topology over 2 classes x <=2 fields x edge kinds x every root (thorough: all 5 kinds, plus 3 classes x 1 "
                   "field), BFS + cut rule, invariants for every linear extension; real: TLC-emitted (topology, root) cases materialised as "
                   "dataclass/NamedTuple/slots/plain classes in one or two modules, plus every type of the value universe, plus classes first walked "
                   "before a field type was defined and walked again afterwards through other roots, plus every root the repository's own test "
                   "suite passes to static_order (recorded passively), static_order() "
                   "projected to opaque ids with stdlib-derived member facts; non-trivial = a deferred node occurs",
           "samples": [slim[0], slim[len(slim) // 2]]}
    return Outcome(level="model_checking", coverage=cov, violations=viol, impl_drift=drift,
                   assumptions=["direct members and alias unwrapping are computed with typing.get_args/get_type_hints, never via typelib",
                                "types are compared with Python ==, as the graph itself does"])


def replay(ctx: Ctx, rep: dict) -> Outcome:
    m = rep["case"]
    warnings.simplefilter("ignore")
    if "topo" in m:
        env = Env(topo_defs(m["topo"], m["variant"]), tag="g")
        env.build(None, "m1")
        ann = env.annotation(field_type(m["root"]))
        variants = root_variants(env, ann, env.modules["m1"], 1)
    elif "late" in m or "suite_root" in m:
        return run(ctx)
    else:
        defs, types, _ = vs.universe("quick")
        env = vs.make_env(defs)
        ann = env.annotation(m["T"])
        variants = [("memoised", ann)]
    ev = observe(ann, env, variants)
    from typelib import graph
    for n in graph.static_order(ann):
        print("  ", n)
    slim = [{kk: ev[kk] for kk in ("nodes", "root", "rootu", "members", "salias", "equiv", "raised")}]
    _, rejects = tlc.validate_trace("Graph_Trace", "Graph_Trace.cfg", slim)
    viol = [Violation(clause="Graph." + r["clause"], case=m, fields={"raised": ev["raised"]}, msg=json.dumps(ev["nodes"])[:400]) for r in rejects]
    return Outcome(level="model_checking", coverage={"evaluations": 1}, violations=viol)
