"""Check runner: drivers produce observations, this module turns them into a verdict.

Exit codes: 0 property held on everything explored (known findings are reported,
not alarmed); 1 + "VIOLATION property=<id> replay=<path>" for an unlisted violation;
2 machinery failure (never accompanied by a VIOLATION line).
"""
from __future__ import annotations

import dataclasses
import hashlib
import importlib
import json
import os
import re
import sys
import time
import traceback

from . import tlc
from .terms import Deadline

VERIF = tlc.VERIF
# Evidence and replay files go under /verif unless VERIF_OUT names another directory (used only by
# tools/seeds.py, which runs the checks against a patched scratch worktree selected with PYTHONPATH
# and must not overwrite the evidence of the real tree).
OUT = os.environ.get("VERIF_OUT") or VERIF
LEVELS = {}


def tree_under_test() -> str:
    import typelib
    return os.path.dirname(os.path.dirname(os.path.dirname(os.path.abspath(typelib.__file__))))


@dataclasses.dataclass
class Ctx:
    pid: str
    tier: str
    seed: int
    replay: str | None = None

    @property
    def quick(self) -> bool:
        return self.tier == "quick"


@dataclasses.dataclass
class Violation:
    """One observed behaviour of the real code that the spec rejects."""
    clause: str                 # failing clause named by the trace spec
    case: dict                  # everything needed to re-run it (terms, sources, events)
    fields: dict = dataclasses.field(default_factory=dict)  # structured classification
    msg: str = ""

    def key(self) -> str:
        blob = json.dumps({"clause": self.clause, "case": self.case}, sort_keys=True, default=str)
        return hashlib.sha1(blob.encode()).hexdigest()[:16]


@dataclasses.dataclass
class Outcome:
    level: str
    coverage: dict
    violations: list = dataclasses.field(default_factory=list)
    assumptions: list = dataclasses.field(default_factory=list)
    impl_drift: list = dataclasses.field(default_factory=list)
    notes: dict = dataclasses.field(default_factory=dict)


def load_findings() -> list:
    path = os.path.join(VERIF, "known_findings.json")
    if not os.path.exists(path):
        return []
    with open(path) as fh:
        return json.load(fh).get("findings", [])


def _match_one(pattern, value) -> bool:
    if isinstance(pattern, str) and pattern.startswith("re:"):
        return value is not None and re.search(pattern[3:], str(value)) is not None
    if isinstance(pattern, list):
        return any(_match_one(p, value) for p in pattern)
    return pattern == value


def classify(pid: str, v: Violation, findings: list):
    """Return the open finding that explains this violation, or None.

    A finding never matches on the property id alone: its `match` must name at least
    the failing clause and one structural field of the case.
    """
    rec = {"clause": v.clause, **v.fields}
    for f in findings:
        if f.get("status") != "open" or f.get("property") != pid:
            continue
        m = f.get("match") or {}
        if "clause" not in m or len(m) < 2:
            continue
        if all(_match_one(p, rec.get(k)) for k, p in m.items()):
            return f
    return None


def write_evidence(ctx: Ctx, out: Outcome, wall: float, nviol: int, known: dict) -> None:
    cov = dict(out.coverage)
    if out.impl_drift:
        cov["impl_drift"] = out.impl_drift[:20]
        cov["impl_drift_count"] = len(out.impl_drift)
    if known:
        cov["known_findings_seen"] = known
    cov.update({k: v for k, v in out.notes.items() if k not in cov})
    cov["tree_under_test"] = tree_under_test()
    ev = {
        "property_id": ctx.pid,
        "tier": ctx.tier,
        "seed": ctx.seed,
        "level": out.level,
        "coverage": cov,
        "assumptions": out.assumptions,
        "wall_s": round(wall, 2),
        "violations": nviol,
    }
    os.makedirs(os.path.join(OUT, "evidence"), exist_ok=True)
    path = os.path.join(OUT, "evidence", f"{ctx.pid}.json")
    with open(path, "w") as fh:
        json.dump(ev, fh, indent=1, default=str, sort_keys=True)
        fh.write("\n")


def write_replay(pid: str, v: Violation) -> str:
    d = os.path.join(OUT, "replays", pid)
    os.makedirs(d, exist_ok=True)
    path = os.path.join(d, v.key() + ".json")
    with open(path, "w") as fh:
        json.dump({"property": pid, "clause": v.clause, "fields": v.fields,
                   "msg": v.msg, "case": v.case}, fh, indent=1, default=str)
    return path


def main(argv=None) -> int:
    import argparse

    ap = argparse.ArgumentParser(prog="check")
    ap.add_argument("pid")
    ap.add_argument("--tier", default=os.environ.get("VERIF_TIER") or "quick",
                    choices=["quick", "thorough"])
    ap.add_argument("--replay", default=None)
    args = ap.parse_args(argv)
    pid = args.pid.upper()
    seed = int(os.environ.get("VERIF_SEED") or 0)
    ctx = Ctx(pid=pid, tier=args.tier, seed=seed, replay=args.replay)
    t0 = time.time()
    try:
        mod = importlib.import_module(f"harness.drivers.{pid.lower()}")
        if ctx.replay:
            with open(ctx.replay) as fh:
                rep = json.load(fh)
            out: Outcome = mod.replay(ctx, rep)
        else:
            out = mod.run(ctx)
    except tlc.MachineryError as e:
        print(f"MACHINERY-FAILURE property={pid}: {e}", file=sys.stderr)
        return 2
    except (Exception, Deadline):      # a stray watchdog alarm is a machinery failure, never a verdict
        traceback.print_exc()
        print(f"MACHINERY-FAILURE property={pid}: unexpected exception in the harness", file=sys.stderr)
        return 2
    findings = load_findings()
    known: dict = {}
    fresh: list[Violation] = []
    for v in out.violations:
        f = classify(pid, v, findings)
        if f is None:
            fresh.append(v)
        else:
            known[f["id"]] = known.get(f["id"], 0) + 1
    wall = time.time() - t0
    if not ctx.replay:
        write_evidence(ctx, out, wall, len(fresh), known)
    for f in findings:
        if f.get("id") in known:
            print(f"KNOWN-FINDING: property={pid} {f['id']} {f['what']} (n={known[f['id']]})")
    if fresh:
        seen = set()
        shown = 0
        for v in fresh:
            sig = (v.clause, json.dumps(v.fields, sort_keys=True, default=str))
            if sig in seen:
                continue
            seen.add(sig)
            if shown < 25:
                path = write_replay(pid, v)
                print(f"VIOLATION property={pid} replay={path}")
                print(f"  clause={v.clause} fields={json.dumps(v.fields, default=str)} {v.msg}")
                shown += 1
        print(f"{pid}: {len(fresh)} violating observations in {len(seen)} classes "
              f"({wall:.1f}s)")
        return 1
    cov = out.coverage
    print(f"{pid}: OK tier={ctx.tier} states={cov.get('states')} "
          f"events={cov.get('traces_validated_against_impl', cov.get('evaluations'))} "
          f"known={sum(known.values())} ({wall:.1f}s)")
    return 0
